#!/bin/bash
# seedrun.sh <prop> <patch.diff> [tier]  — development aid: run the check of <prop> against a scratch
# worktree of /repo with the patch applied (VERIF_REPO), without touching /repo or the evidence.
set -u
P=$1; PATCH=$2; TIER=${3:-quick}; shift; shift; shift 2>/dev/null; EXTRA="$*"
WT=/tmp/wt/run-$P-$$
for try in 1 2 3 4 5; do git -C /repo worktree add --detach "$WT" HEAD -q && break; sleep 3; done; [ -d "$WT" ] || exit 2
git -C "$WT" apply "$PATCH" || { git -C /repo worktree remove --force "$WT"; echo "patch does not apply"; exit 2; }
mkdir -p /tmp/seedrun
VERIF_REPO=$WT GOSYM_NOEVIDENCE=1 GOSYM_REPLAYDIR=/tmp/seedrun/replays-$P-$$ /verif/check $P $TIER $EXTRA 2>&1 | sed "s#$WT#/repo#g" | grep -v '^  ' | tail -15
rc=${PIPESTATUS[0]}
git -C /repo worktree remove --force "$WT"
rm -rf /tmp/seedrun/replays-$P-$$
echo "seedrun $P exit=$rc"
exit $rc
