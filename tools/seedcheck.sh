#!/bin/bash
# seedcheck.sh <prop> <k> [src-dir]
# Confirms a candidate seeded change independently of whoever produced it:
#   1. demonstration passes on the unchanged tree
#   2. patch applies, project builds
#   3. demonstration fails with the patch
#   4. the existing tests still pass with the patch (demo removed): every package that imports a
#      patched package, directly, transitively or from its tests (SEEDSUITE=all: every package)
# Everything happens in a scratch worktree under /tmp which is removed afterwards.
# Output: /tmp/seedcheck/<prop>-<k>.log and a one-line verdict on stdout.
set -u
P=$1; K=$2; SRC=${3:-/tmp/seed/$P/$K}
WT=/tmp/wt/verify-$P-$K
LOG=/tmp/seedcheck/$P-$K.log
mkdir -p /tmp/seedcheck /tmp/wt
exec 3>&1 >"$LOG" 2>&1
fail() { echo "SEEDCHECK $P/$K: REJECT: $1" >&3; git -C /repo worktree remove --force "$WT" 2>/dev/null; exit 1; }
[ -f "$SRC/patch.diff" ] && [ -f "$SRC/zz_seed_demo_test.go" ] || fail "missing deliverables"
DP=$(cat "$SRC/demo_path.txt" 2>/dev/null | head -1 | tr -d ' \r\n' | sed 's#^\./##; s#/$##')
[ -n "$DP" ] || fail "no demo_path.txt"
git -C /repo worktree remove --force "$WT" 2>/dev/null
git -C /repo worktree add --detach "$WT" HEAD -q || fail "worktree"
cd "$WT"
[ -d "$DP" ] || fail "demo path $DP does not exist"
cp "$SRC/zz_seed_demo_test.go" "$DP/zz_seed_demo_test.go"
TESTS=$(grep -oE '^func (Test[A-Za-z0-9_]+)' "$DP/zz_seed_demo_test.go" | awk '{print $2}' | paste -sd'|')
[ -n "$TESTS" ] || fail "no Test functions in demo"
echo "### demo on unchanged tree"
go test -count=1 -run "^($TESTS)\$" "./$DP" || fail "demo fails on the unchanged tree"
echo "### apply patch"
git apply "$SRC/patch.diff" || fail "patch does not apply"
if git diff --name-only | grep -q '_test\.go$'; then fail "patch edits test files"; fi
go build ./... || fail "does not build with patch"
echo "### demo with patch"
if go test -count=1 -run "^($TESTS)\$" "./$DP"; then fail "demo passes with the patch"; fi
rm "$DP/zz_seed_demo_test.go"
# SEEDSUITE=all: every package; default: every package that (transitively, or from its tests)
# imports a patched package, plus the patched packages themselves
if [ "${SEEDSUITE:-affected}" = all ]; then
  SUITE=./...
else
  PATCHED=$(git diff --name-only | xargs -n1 dirname | sort -u | sed 's#^#github.com/gotd/td/#; s#/\.$##')
  SUITE=$(go list -f '{{.ImportPath}} {{join .Deps " "}} {{join .TestImports " "}} {{join .XTestImports " "}}' ./... 2>/dev/null | awk -v pat="$PATCHED" 'BEGIN{n=split(pat,a,"\n"); for(i=1;i<=n;i++) want[a[i]]=1} {for(i=1;i<=NF;i++) if($i in want){print $1; break}}' | sort -u)
  [ -n "$SUITE" ] || SUITE=./...
  echo "suite restricted to $(echo "$SUITE" | wc -w) affected packages"
fi
echo "### existing tests with patch"
go test -count=1 -vet=off -timeout 25m $SUITE 2>&1 | grep -v 'no test files' | tee /tmp/seedcheck/$P-$K.suite | tail -40
if grep -qE '^(FAIL|---\s*FAIL|panic:)' /tmp/seedcheck/$P-$K.suite; then
  # the machine is shared and some timing-sensitive tests are flaky under load: re-run the failing
  # packages alone, twice; a package that passes both re-runs is counted as a flake
  PKGS=$(grep -E '^FAIL\s+github.com' /tmp/seedcheck/$P-$K.suite | awk '{print $2}' | sed 's#github.com/gotd/td#.#' | sort -u)
  [ -n "$PKGS" ] || fail "existing tests fail with the patch"
  echo "### re-running failing packages: $PKGS"
  for round in 1 2; do
    go test -count=1 -vet=off -timeout 25m $PKGS || fail "existing tests fail with the patch (also on re-run): $PKGS"
  done
  echo "### failures did not reproduce on re-run: treated as flakes ($PKGS)"
fi
cd /
git -C /repo worktree remove --force "$WT"
echo "SEEDCHECK $P/$K: OK (demo tests: $TESTS in $DP)" >&3
