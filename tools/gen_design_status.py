#!/usr/bin/env python3
"""Regenerates the per-property status table of DESIGN.md (between the STATUS markers) from
harness/index.json, known-findings.jsonl, seeded/*/meta.json and manifest_meta.json."""
import json, os, re, glob
V='/verif'
idx={p['prop']:p for p in json.load(open(f'{V}/harness/index.json'))}
meta=json.load(open(f'{V}/manifest_meta.json'))
props=[json.loads(l) for l in open(f'{V}/properties.jsonl')]
known={}; fixed={}
for line in open(f'{V}/known-findings.jsonl'):
    line=line.strip()
    if not line: continue
    if line.startswith('fixed:'):
        m=re.match(r'fixed: property=(\S+) (\S+) (.*)',line)
        fixed.setdefault(m.group(1),[]).append((m.group(2),m.group(3)))
    else:
        k=json.loads(line); known.setdefault(k['property'],[]).append(k)
seeds={}
for d in sorted(glob.glob(f'{V}/seeded/*/meta.json')):
    m=json.load(open(d)); sid=os.path.basename(os.path.dirname(d))
    seeds.setdefault(m['property'],[]).append((sid,m))
out=[]
out.append('| id | status | harnesses (bounds in harness/index.json) | genuine defects | seeded changes |')
out.append('|---|---|---|---|---|')
for p in props:
    pid=p['id']
    if pid in meta.get('not_applicable',{}) or pid not in idx:
        reason=meta.get('not_applicable',{}).get(pid,'no check')
        out.append(f"| {pid} | not applicable | — | — | — |  \n".strip()+"")
        out[-1]=f"| {pid} | not applicable: {reason[:160]} | — | — | — |"
        continue
    hs=[]
    for g in idx[pid]['groups']:
        for h in g['harnesses']:
            hs.append(h['fn']+(' (thorough only)' if h.get('thorough_only') else ''))
    d=[]
    for c,w in fixed.get(pid,[]): d.append(f"fixed {c}: {w[:110]}")
    for k in known.get(pid,[]): d.append(f"KNOWN {k['finding']}")
    s=[]
    for sid,m in seeds.get(pid,[]):
        s.append(f"{sid}: {m['check_verdict']} ({m['check_report'][:70]})")
    out.append(f"| {pid} | claimed | {', '.join(hs)} | {'; '.join(d) or '—'} | {'; '.join(s) or '—'} |")
block='\n'.join(out)
p=f'{V}/DESIGN.md'
s=open(p).read()
b,e='<!-- STATUS-BEGIN -->','<!-- STATUS-END -->'
if b in s:
    s=s[:s.index(b)+len(b)]+'\n'+block+'\n'+s[s.index(e):]
    open(p,'w').write(s)
print(len(out)-2,'rows')
