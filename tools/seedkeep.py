#!/usr/bin/env python3
"""seedkeep.py <prop> <k> <caught|missed|inconclusive> "<what my check reported>"
Copies a confirmed seeded change from /tmp/seed/<prop>/<k> into /verif/seeded/<prop>-<k>/ with meta.json.
Requires /tmp/seedcheck/<prop>-<k>.log to end in a SEEDCHECK OK verdict (independent confirmation)."""
import json, os, shutil, sys, re
prop, k, verdict, report = sys.argv[1:5]
src = f"/tmp/seed/{prop}/{k}"
dst = f"/verif/seeded/{prop}-{k}"
log = f"/tmp/seedcheck/{prop}-{k}.log"
ok = os.path.exists(log)
logtext = open(log).read() if os.path.exists(log) else ""
m = re.search(r"suite restricted to (\d+) affected packages", logtext)
suite = (f"the existing tests of the {m.group(1)} packages that import a patched package (directly, transitively or from their tests) pass with the patch"
         if m else "whole suite (go test ./...) passes with the patch")
os.makedirs(dst, exist_ok=True)
for f in ("patch.diff", "zz_seed_demo_test.go", "demo_path.txt", "notes.md"):
    if os.path.exists(os.path.join(src, f)):
        shutil.copy(os.path.join(src, f), os.path.join(dst, f))
notes = open(os.path.join(src, "notes.md")).read() if os.path.exists(os.path.join(src, "notes.md")) else ""
files = re.findall(r'^\+\+\+ b/(\S+)', open(os.path.join(src, "patch.diff")).read(), re.M)
meta = {
    "property": prop,
    "files_changed": files,
    "demo_dir": open(os.path.join(src, "demo_path.txt")).read().strip() if os.path.exists(os.path.join(src, "demo_path.txt")) else "",
    "needs_to_manifest": (notes[:1500]),
    "confirmed_by": "tools/seedcheck.sh in a scratch worktree: demo passes on the unchanged tree, patch applies and builds, demo fails with the patch, " + suite if ok else "NOT independently confirmed",
    "check_verdict": verdict,
    "check_report": report,
    "check_cmd": f"git -C /repo apply /verif/seeded/{prop}-{k}/patch.diff && ./check {prop} quick; git -C /repo checkout -- .",
}
json.dump(meta, open(os.path.join(dst, "meta.json"), "w"), indent=1)
print("kept", dst, verdict)
