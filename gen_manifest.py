#!/usr/bin/env python3
"""Regenerates MANIFEST.json from harness/index.json + manifest_meta.json (levels, notes, N/A reasons)."""
import json, os
here = os.path.dirname(os.path.abspath(__file__))
idx = json.load(open(os.path.join(here, 'harness/index.json')))
meta = json.load(open(os.path.join(here, 'manifest_meta.json')))
props = [json.loads(l) for l in open(os.path.join(here, 'properties.jsonl'))]
claimed = {p['prop'] for p in idx}
checks = []
for p in props:
    pid = p['id']
    if pid not in claimed or pid in meta.get('not_applicable', {}):
        continue
    m = meta['checks'].get(pid, {})
    checks.append({
        "property_id": pid,
        "quick_cmd": f"./check {pid} quick",
        "thorough_cmd": f"./check {pid} thorough",
        "evidence_file": f"/verif/evidence/{pid}.json",
        "replay_cmd_template": f"./check {pid} --replay {{path}}",
        "engine": "gosym",
        "level_claimed": {
            "category": "model_checking",
            "text": m.get("text", "bounded symbolic execution of the real code; every branch and assertion decided by an SMT solver within the stated bounds"),
            "design_ref": m.get("design_ref", f"DESIGN.md section 5, {pid}"),
        },
        "level_note": m.get("note", "trusted: gosym interpreter semantics (validated per run by native conformance replays), z3/cvc5, listed models"),
        "technique": m.get("technique", "solver-based bounded symbolic execution of go/ssa (gosym) + native replay"),
    })
na = []
for p in props:
    pid = p['id']
    if pid in {c['property_id'] for c in checks}:
        continue
    reason = meta.get('not_applicable', {}).get(pid, "no check built yet in this round; not claimed")
    na.append({"property_id": pid, "reason": reason})
man = {
    "version": 1,
    "setup_cmd": "cd /verif/engine && PATH=/opt/veriftools/go1.26.8/bin:$PATH GOTOOLCHAIN=local GOFLAGS=-mod=mod GOPROXY=off go build -o /verif/bin/gosym ./cmd/gosym",
    "hooks": {
        "guard": "verif",
        "enable": "go build tag `verif`; harnesses and /repo/internal/verifrt are injected by overlay (packages.Config.Overlay for the engine, `go test -overlay` for native replay); /repo carries no hook commits",
        "baseline_off_cmd": "cd /repo && go test -vet=off -count=1 -timeout 25m ./...",
        "source_commits": [],
        "add_only": True,
    },
    "engines": [{
        "name": "gosym", "path": "/verif/engine",
        "serves_properties": [c['property_id'] for c in checks],
        "kind_free_text": "own symbolic executor over go/ssa (x/tools v0.50.0, go1.26.8): symbolic scalars as SMT bit-vector terms, concrete heap, path exploration by re-execution with decision prefixes, z3 -in per worker (fallback z3 5.1.0 / cvc5 bv-as-int), native replay of every counterexample via go test -overlay",
    }],
    "checks": checks,
    "not_applicable": na,
    "notes": meta.get("notes", ""),
}
json.dump(man, open(os.path.join(here, 'MANIFEST.json'), 'w'), indent=1)
print(len(checks), "checks;", len(na), "not applicable")
