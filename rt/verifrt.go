//go:build verif

// Package verifrt is the harness API of the gosym checker (/verif).
//
// Under the symbolic engine every function here is intercepted: Nondet* return fresh symbolic
// values, Assume/Assert become solver queries. Compiled natively (this file) the same harness
// replays one concrete counterexample or witness read from the JSON file named by VERIF_REPLAY,
// against the real compiled code.
package verifrt

import (
	"path/filepath"
	"encoding/json"
	"fmt"
	"math"
	"math/big"
	"os"
	"reflect"
	"runtime"
	"strings"
	"sync"
	"testing"
	"testing/synctest"
	"time"
)

type replayFile struct {
	Harness string            `json:"harness"`
	Tier    int               `json:"tier"`
	Seed    int               `json:"seed"`
	Values  map[string]string `json:"values"`
}

var (
	mu      sync.Mutex
	rf      replayFile
	counter = map[string]int{}
	curT    *testing.T
	inBub   bool
	lastPan string
	maxAll  int
)

type assumeFalse struct{}

func out(format string, a ...any) {
	fmt.Printf("VERIF:"+format+"\n", a...)
}

// RunNative is called from the generated TestVerifReplay.
func RunNative(t *testing.T, harnesses map[string]func()) {
	path := os.Getenv("VERIF_REPLAY")
	if path == "" {
		t.Skip("VERIF_REPLAY not set")
	}
	data, err := os.ReadFile(path)
	if err != nil {
		t.Fatal(err)
	}
	if err := json.Unmarshal(data, &rf); err != nil {
		t.Fatal(err)
	}
	h, ok := harnesses[rf.Harness]
	if !ok {
		t.Fatalf("unknown harness %q", rf.Harness)
	}
	curT = t
	done := make(chan struct{})
	go func() {
		defer close(done)
		defer func() {
			if r := recover(); r != nil {
				if _, ok := r.(assumeFalse); ok {
					out("ASSUME-FALSE")
					return
				}
				buf := make([]byte, 4096)
				n := runtime.Stack(buf, false)
				out("PANIC %s", strings.ReplaceAll(fmt.Sprint(r), "\n", " "))
				fmt.Printf("%s\n", buf[:n])
			}
		}()
		h()
		out("DONE")
	}()
	select {
	case <-done:
	case <-time.After(60 * time.Second):
		out("TIMEOUT")
	}
}

func next(name string) *big.Int {
	mu.Lock()
	defer mu.Unlock()
	n := counter[name]
	counter[name] = n + 1
	full := fmt.Sprintf("%s#%d", name, n)
	v := new(big.Int)
	if s, ok := rf.Values[full]; ok {
		v.SetString(strings.TrimPrefix(s, "0x"), 16)
	}
	return v
}

func NondetBool(name string) bool     { return next(name).Sign() != 0 }
func NondetInt(name string) int       { return int(next(name).Uint64()) }
func NondetInt8(name string) int8     { return int8(next(name).Uint64()) }
func NondetInt16(name string) int16   { return int16(next(name).Uint64()) }
func NondetInt32(name string) int32   { return int32(next(name).Uint64()) }
func NondetInt64(name string) int64   { return int64(next(name).Uint64()) }
func NondetUint(name string) uint     { return uint(next(name).Uint64()) }
func NondetUint8(name string) uint8   { return uint8(next(name).Uint64()) }
func NondetUint16(name string) uint16 { return uint16(next(name).Uint64()) }
func NondetUint32(name string) uint32 { return uint32(next(name).Uint64()) }
func NondetUint64(name string) uint64 { return next(name).Uint64() }

// NondetBytes returns n arbitrary bytes (n concrete).
func NondetBytes(name string, n int) []byte {
	b := make([]byte, n)
	for i := range b {
		b[i] = NondetUint8(fmt.Sprintf("%s[%d]", name, i))
	}
	return b
}

// Fork returns a value in [0,n); the engine explores every feasible one.
func Fork(name string, n int) int {
	v := NondetInt("fork:" + name)
	if v < 0 || v >= n {
		panic(assumeFalse{})
	}
	return v
}

func Assume(cond bool) {
	if !cond {
		panic(assumeFalse{})
	}
}

// Assert states a claim; id is stable ("Cnn.harness.claim").
func Assert(cond bool, id string) {
	if !cond {
		out("ASSERT %s", id)
	}
}

func Reach(id string) { out("REACH %s", id) }

// Class declares that the current inputs lie in the input class of a known finding.
func Class(finding string, in bool) {}

// AllocLimit asks the engine to prove every symbolic-size allocation stays within n elements.
func AllocLimit(n int) {}

// MaxAlloc reports the largest allocation seen (engine only; 0 natively).
func MaxAlloc() int { return 0 }

// Symbolic reports whether the harness runs under the symbolic engine.
func Symbolic() bool { return false }

// Seed is the run's VERIF_SEED (sampling decisions in harnesses must depend on nothing else).
func Seed() int {
	if rf.Seed < 0 {
		return -rf.Seed
	}
	return rf.Seed
}

// Tier is 0 for quick, 1 for thorough.
func Tier() int { return rf.Tier }

// NoPanic runs f and reports whether it returned without panicking.
func NoPanic(f func()) (ok bool) {
	defer func() {
		if r := recover(); r != nil {
			if _, isAF := r.(assumeFalse); isAF {
				panic(r)
			}
			lastPan = fmt.Sprint(r)
			ok = false
		}
	}()
	f()
	return true
}

func LastPanic() string { return lastPan }

// Observe logs a value for conformance comparison between engine and native runs.
func Observe(name string, v any) {
	var sb strings.Builder
	render(&sb, reflect.ValueOf(v))
	out("OBSERVE %s=%s", name, sb.String())
}

func render(sb *strings.Builder, v reflect.Value) {
	if !v.IsValid() {
		sb.WriteString("<nil>")
		return
	}
	switch v.Kind() {
	case reflect.Bool:
		fmt.Fprintf(sb, "%v", v.Bool())
	case reflect.Int, reflect.Int8, reflect.Int16, reflect.Int32, reflect.Int64:
		fmt.Fprintf(sb, "%d", v.Int())
	case reflect.Uint, reflect.Uint8, reflect.Uint16, reflect.Uint32, reflect.Uint64, reflect.Uintptr:
		fmt.Fprintf(sb, "%d", v.Uint())
	case reflect.String:
		fmt.Fprintf(sb, "%q", v.String())
	case reflect.Slice, reflect.Array:
		sb.WriteString("[")
		for i := 0; i < v.Len(); i++ {
			if i > 0 {
				sb.WriteString(" ")
			}
			render(sb, v.Index(i))
		}
		sb.WriteString("]")
	case reflect.Struct:
		sb.WriteString("{")
		for i := 0; i < v.NumField(); i++ {
			if i > 0 {
				sb.WriteString(" ")
			}
			render(sb, v.Field(i))
		}
		sb.WriteString("}")
	case reflect.Interface:
		if v.IsNil() {
			sb.WriteString("<nil>")
		} else {
			render(sb, v.Elem())
		}
	case reflect.Ptr:
		if v.IsNil() {
			sb.WriteString("<nil>")
		} else {
			sb.WriteString("&")
			render(sb, v.Elem())
		}
	default:
		fmt.Fprintf(sb, "<%s>", v.Kind())
	}
}

// --- time and scheduling -------------------------------------------------------------

// Bubble runs f with virtual time (engine: virtual clock; native: testing/synctest).
func Bubble(f func()) {
	if curT == nil {
		f()
		return
	}
	var pv any
	synctest.Test(curT, func(*testing.T) {
		inBub = true
		defer func() { inBub = false }()
		defer func() { pv = recover() }()
		f()
	})
	if pv != nil {
		panic(pv)
	}
}

// Settle lets all other goroutines run until each is blocked.
func Settle() {
	if inBub {
		synctest.Wait()
		return
	}
	for i := 0; i < 20; i++ {
		runtime.Gosched()
		time.Sleep(time.Millisecond)
	}
}

// Advance moves the virtual clock forward by d, running whatever becomes runnable.
func Advance(d time.Duration) {
	if inBub {
		synctest.Wait()
		time.Sleep(d)
		synctest.Wait()
		return
	}
	time.Sleep(d)
}

// Explore switches on schedule exploration with the given preemption bound (engine only).
func Explore(preemptions int) {}

// Yield is an explicit scheduling point.
func Yield() { runtime.Gosched() }

// OpaqueAlloc makes make([]T, n) with symbolic n yield a slice of symbolic length instead of
// forking over every feasible n (engine only).
func OpaqueAlloc(on bool) {}

// CollisionFree switches on the collision-free idealisation of hash functions (engine only).
func CollisionFree() {}

// --- file system with crash points (engine: model of engine/interp/models_fs.go) -------------

var fsDir string

// FSPath names a file of the harness's private file system (native: a fresh temporary directory).
func FSPath(name string) string {
	if fsDir == "" {
		d, err := os.MkdirTemp("", "verif-fs-")
		if err != nil {
			panic(err)
		}
		fsDir = d
	}
	return filepath.Join(fsDir, name)
}

// FSInit creates a file with durable content.
func FSInit(path string, data []byte) {
	if err := os.WriteFile(path, data, 0o600); err != nil {
		panic(err)
	}
}

// Crash runs f; under the engine the process may stop before any file-system call inside f (or
// right after it) and Crash then reports true. Natively f always runs to completion.
func Crash(f func()) bool { f(); return false }

// FSRestart: after a crash (engine) the machine comes back: what survived is the disk content
// from here on and later calls can crash again. Natively nothing crashed: no-op.
func FSRestart() {}

// FSDurable returns what the disk holds for path (after a crash: the synced state plus any
// prefix of the unsynced operations; natively: the file as it is).
func FSDurable(path string) ([]byte, bool) {
	data, err := os.ReadFile(path)
	if err != nil {
		return nil, false
	}
	return data, true
}

// FSList lists the files of the private file system (engine) / temporary directory (native).
func FSList() []string {
	ents, _ := os.ReadDir(fsDir)
	var out []string
	for _, e := range ents {
		out = append(out, filepath.Join(fsDir, e.Name()))
	}
	return out
}

// SameValue reports deep structural equality of two values of the same dynamic type: pointers
// are followed, slices compare by length and elements (nil and empty are the same), floats by bit
// pattern, strings and scalars by value; maps, channels and functions count as equal. Under the
// engine the result is a solver term (see engine/interp/models_deepeq.go, which follows the same
// rules and additionally treats slices of symbolic length as equal).
func SameValue(a, b any) bool {
	if a == nil || b == nil {
		return a == nil && b == nil
	}
	va, vb := reflect.ValueOf(a), reflect.ValueOf(b)
	if va.Type() != vb.Type() {
		return false
	}
	return sameValue(va, vb, 0)
}

func sameValue(a, b reflect.Value, depth int) bool {
	if depth > 48 {
		return true
	}
	switch a.Kind() {
	case reflect.Pointer:
		if a.IsNil() || b.IsNil() {
			return a.IsNil() && b.IsNil()
		}
		if a.Pointer() == b.Pointer() {
			return true
		}
		return sameValue(a.Elem(), b.Elem(), depth+1)
	case reflect.Slice, reflect.Array:
		if a.Len() != b.Len() {
			return false
		}
		for j := 0; j < a.Len(); j++ {
			if !sameValue(a.Index(j), b.Index(j), depth+1) {
				return false
			}
		}
		return true
	case reflect.Interface:
		if a.IsNil() || b.IsNil() {
			return a.IsNil() && b.IsNil()
		}
		if a.Elem().Type() != b.Elem().Type() {
			return false
		}
		return sameValue(a.Elem(), b.Elem(), depth+1)
	case reflect.Struct:
		for j := 0; j < a.NumField(); j++ {
			if !sameValue(a.Field(j), b.Field(j), depth+1) {
				return false
			}
		}
		return true
	case reflect.Float32, reflect.Float64:
		return math.Float64bits(a.Float()) == math.Float64bits(b.Float())
	case reflect.String:
		return a.String() == b.String()
	case reflect.Bool:
		return a.Bool() == b.Bool()
	case reflect.Int, reflect.Int8, reflect.Int16, reflect.Int32, reflect.Int64:
		return a.Int() == b.Int()
	case reflect.Uint, reflect.Uint8, reflect.Uint16, reflect.Uint32, reflect.Uint64, reflect.Uintptr:
		return a.Uint() == b.Uint()
	}
	return true
}
