package smt

import (
	"bufio"
	"fmt"
	"io"
	"math/big"
	"os"
	"os/exec"
	"strings"
	"sync"
	"time"
)

type Result int

const (
	Unsat Result = iota
	Sat
	Unknown
)

func (r Result) String() string { return [...]string{"unsat", "sat", "unknown"}[r] }

// Backend describes a solver command line.
type Backend struct {
	Name string
	Argv []string
	// TimeoutOpt renders the per-query timeout (ms) as an SMT-LIB command ("" if via argv only).
	TimeoutCmd func(ms int) string
}

var (
	Z3    = Backend{"z3", []string{"z3", "-in"}, func(ms int) string { return fmt.Sprintf("(set-option :timeout %d)\n", ms) }}
	Z3New = Backend{"z3-new", []string{"z3-new", "-in"}, func(ms int) string { return fmt.Sprintf("(set-option :timeout %d)\n", ms) }}
	CVC5  = Backend{"cvc5", []string{"cvc5", "--incremental", "--lang=smt2", "--produce-models"}, func(ms int) string { return fmt.Sprintf("(set-option :tlimit-per %d)\n", ms) }}
	// CVC5Int: bit-vectors solved as integers; no incremental mode needed since we reset per query.
	CVC5Int = Backend{"cvc5-bvint", []string{"cvc5", "--incremental", "--lang=smt2", "--produce-models", "--solve-bv-as-int=sum"}, func(ms int) string { return fmt.Sprintf("(set-option :tlimit-per %d)\n", ms) }}
)

// Proc is one live solver process.
type Proc struct {
	be    Backend
	cmd   *exec.Cmd
	in    io.WriteCloser
	out   *bufio.Reader
	Log   io.Writer
	dead  bool
	Time  time.Duration
	Calls int
}

func Start(be Backend) (*Proc, error) {
	cmd := exec.Command(be.Argv[0], be.Argv[1:]...)
	in, err := cmd.StdinPipe()
	if err != nil {
		return nil, err
	}
	out, err := cmd.StdoutPipe()
	if err != nil {
		return nil, err
	}
	cmd.Stderr = os.Stderr
	if err := cmd.Start(); err != nil {
		return nil, err
	}
	p := &Proc{be: be, cmd: cmd, in: in, out: bufio.NewReaderSize(out, 1<<16)}
	return p, nil
}

func (p *Proc) Close() {
	if p.dead {
		return
	}
	p.dead = true
	p.in.Close()
	done := make(chan struct{})
	go func() { p.cmd.Wait(); close(done) }()
	select {
	case <-done:
	case <-time.After(500 * time.Millisecond):
		p.cmd.Process.Kill()
	}
}

func (p *Proc) Send(s string) {
	if p.Log != nil {
		io.WriteString(p.Log, s)
	}
	if _, err := io.WriteString(p.in, s); err != nil {
		p.dead = true
	}
}

// readSexp reads one balanced s-expression or atom line from the solver.
func (p *Proc) readSexp() (string, error) {
	var sb strings.Builder
	depth := 0
	started := false
	inBar := false
	inStr := false
	for {
		b, err := p.out.ReadByte()
		if err != nil {
			p.dead = true
			return sb.String(), err
		}
		if !started {
			if b == ' ' || b == '\n' || b == '\r' || b == '\t' {
				continue
			}
			started = true
		}
		sb.WriteByte(b)
		switch {
		case inBar:
			if b == '|' {
				inBar = false
			}
		case inStr:
			if b == '"' {
				inStr = false
			}
		case b == '|':
			inBar = true
		case b == '"':
			inStr = true
		case b == '(':
			depth++
		case b == ')':
			depth--
			if depth == 0 {
				return sb.String(), nil
			}
		case b == '\n':
			if depth == 0 {
				return strings.TrimSpace(sb.String()), nil
			}
		}
	}
}

// Session is the incremental state for one path: base-level declarations and assertions.
type Session struct {
	P       *Proc
	C       *Ctx
	pr      *Printer
	TimeMS  int
	Queries int
	Errors  int
}

func NewSession(p *Proc, c *Ctx, timeoutMS int) *Session {
	s := &Session{P: p, C: c, TimeMS: timeoutMS}
	s.Reset()
	return s
}

func (s *Session) Reset() {
	s.pr = NewPrinter()
	if s.P.dead {
		// the process was killed (hard deadline) or died: start a fresh one in place
		if np, err := Start(s.P.be); err == nil {
			np.Log, np.Time, np.Calls = s.P.Log, s.P.Time, s.P.Calls
			*s.P = *np
		}
	}
	s.P.Send("(reset)\n(set-option :produce-models true)\n(set-logic ALL)\n")
	if s.P.be.TimeoutCmd != nil {
		s.P.Send(s.P.be.TimeoutCmd(s.TimeMS))
	}
}

// SetCtx rebinds the session to a fresh term context (new path) and resets the solver.
func (s *Session) SetCtx(c *Ctx) {
	s.C = c
	s.Reset()
}

// Assert adds t permanently (base level).
func (s *Session) Assert(t *Term) {
	if t.IsTrue() {
		return
	}
	var sb strings.Builder
	ref := s.pr.Define(&sb, s.C, t)
	fmt.Fprintf(&sb, "(assert %s)\n", ref)
	s.P.Send(sb.String())
}

// Check asks whether base ∧ extra... is satisfiable. If wantModel and sat, returns values of syms.
func (s *Session) Check(extra []*Term, wantModel bool, syms []*Term) (Result, Model) {
	start := time.Now()
	defer func() { s.P.Time += time.Since(start); s.P.Calls++ }()
	s.Queries++
	var sb strings.Builder
	refs := make([]string, 0, len(extra))
	for _, e := range extra {
		refs = append(refs, s.pr.Define(&sb, s.C, e))
	}
	for _, y := range syms {
		s.pr.Define(&sb, s.C, y)
	}
	sb.WriteString("(push 1)\n")
	for _, r := range refs {
		fmt.Fprintf(&sb, "(assert %s)\n", r)
	}
	sb.WriteString("(check-sat)\n")
	s.P.Send(sb.String())
	// hard deadline: a solver that ignores its own time limit is killed; the answer is unknown
	// and the process is replaced at the next Reset
	proc := s.P.cmd.Process
	timer := time.AfterFunc(time.Duration(2*s.TimeMS+5000)*time.Millisecond, func() { proc.Kill() })
	ans, err := s.P.readSexp()
	timer.Stop()
	res := Unknown
	if err == nil {
		switch {
		case ans == "sat":
			res = Sat
		case ans == "unsat":
			res = Unsat
		case strings.HasPrefix(ans, "(error"):
			s.Errors++
			fmt.Fprintf(os.Stderr, "solver error: %s\n", ans)
		}
	}
	var m Model
	if res == Sat && wantModel && len(syms) > 0 {
		m = Model{}
		// chunk get-value to keep lines reasonable
		const chunk = 200
		for i := 0; i < len(syms); i += chunk {
			j := i + chunk
			if j > len(syms) {
				j = len(syms)
			}
			var q strings.Builder
			q.WriteString("(get-value (")
			for _, y := range syms[i:j] {
				q.WriteString(quote(y.Name))
				q.WriteByte(' ')
			}
			q.WriteString("))\n")
			s.P.Send(q.String())
			out, err := s.P.readSexp()
			if err != nil || strings.HasPrefix(out, "(error") {
				s.Errors++
				res = Unknown
				break
			}
			parseValues(out, m)
		}
	}
	if !s.P.dead {
		s.P.Send("(pop 1)\n")
	}
	return res, m
}

// parseValues parses ((|a| #x01) (|b| true) ...) into m.
func parseValues(out string, m Model) {
	i := 0
	n := len(out)
	for i < n {
		// find '(' followed by name
		if out[i] != '(' {
			i++
			continue
		}
		j := i + 1
		for j < n && (out[j] == ' ' || out[j] == '\n') {
			j++
		}
		if j >= n || out[j] == '(' {
			i++
			continue
		}
		// name
		var name string
		if out[j] == '|' {
			k := strings.IndexByte(out[j+1:], '|')
			name = out[j+1 : j+1+k]
			j = j + 1 + k + 1
		} else {
			k := j
			for k < n && out[k] != ' ' && out[k] != ')' {
				k++
			}
			name = out[j:k]
			j = k
		}
		for j < n && (out[j] == ' ' || out[j] == '\n') {
			j++
		}
		// value
		k := j
		depth := 0
		for k < n {
			if out[k] == '(' {
				depth++
			} else if out[k] == ')' {
				if depth == 0 {
					break
				}
				depth--
			}
			k++
		}
		val := strings.TrimSpace(out[j:k])
		if v := parseConst(val); v != nil {
			m[name] = v
		}
		i = k + 1
	}
}

func parseConst(s string) *big.Int {
	switch {
	case s == "true":
		return big.NewInt(1)
	case s == "false":
		return big.NewInt(0)
	case strings.HasPrefix(s, "#x"):
		v, ok := new(big.Int).SetString(s[2:], 16)
		if ok {
			return v
		}
	case strings.HasPrefix(s, "#b"):
		v, ok := new(big.Int).SetString(s[2:], 2)
		if ok {
			return v
		}
	case strings.HasPrefix(s, "(_ bv"):
		f := strings.Fields(s[5:])
		if len(f) > 0 {
			v, ok := new(big.Int).SetString(f[0], 10)
			if ok {
				return v
			}
		}
	}
	return nil
}

// ---------------------------------------------------------------------------
// One-shot check on a fallback backend (fresh process), used when the primary
// answers unknown. The full base (pc) must be supplied.

var fallbackMu sync.Mutex

func OneShot(be Backend, c *Ctx, asserts []*Term, timeoutMS int, wantModel bool, syms []*Term) (Result, Model, time.Duration) {
	start := time.Now()
	p, err := Start(be)
	if err != nil {
		return Unknown, nil, 0
	}
	defer p.Close()
	timer := time.AfterFunc(time.Duration(timeoutMS+2000)*time.Millisecond, func() { p.cmd.Process.Kill() })
	defer timer.Stop()
	s := NewSession(p, c, timeoutMS)
	r, m := s.Check(asserts, wantModel, syms)
	if s.Errors > 0 {
		r = Unknown
	}
	return r, m, time.Since(start)
}
