// Package smt: hash-consed bit-vector / Bool terms with local simplification,
// SMT-LIB2 printing and a concrete evaluator.
package smt

import (
	"fmt"
	"math/big"
	"strings"
)

type Op uint8

const (
	OConst Op = iota
	OSym
	ONot
	OAnd
	OOr
	OIte
	OEq
	OAdd
	OSub
	OMul
	OUDiv
	OURem
	OSDiv
	OSRem
	OBAnd
	OBOr
	OBXor
	OBNot
	ONeg
	OShl
	OLShr
	OAShr
	OUlt
	OUle
	OSlt
	OSle
	OExtract
	OConcat
	OZExt
	OSExt
	OApp // uninterpreted function application; Name = function name
)

var opNames = map[Op]string{
	ONot: "not", OAnd: "and", OOr: "or", OIte: "ite", OEq: "=",
	OAdd: "bvadd", OSub: "bvsub", OMul: "bvmul", OUDiv: "bvudiv", OURem: "bvurem",
	OSDiv: "bvsdiv", OSRem: "bvsrem", OBAnd: "bvand", OBOr: "bvor", OBXor: "bvxor",
	OBNot: "bvnot", ONeg: "bvneg", OShl: "bvshl", OLShr: "bvlshr", OAShr: "bvashr",
	OUlt: "bvult", OUle: "bvule", OSlt: "bvslt", OSle: "bvsle", OConcat: "concat",
}

// Term is an immutable hash-consed node. W==0 means Bool.
type Term struct {
	Op     Op
	W      int
	Args   []*Term
	Val    uint64   // OConst with W<=64 (Bool: 0/1)
	Big    *big.Int // OConst with W>64
	Name   string   // OSym, OApp
	Hi, Lo int      // OExtract
	ID     int
}

type Ctx struct {
	tab   map[string]*Term
	next  int
	Syms  map[string]*Term
	Funcs map[string][]int // uf name -> arg widths..., last = result width
}

func NewCtx() *Ctx {
	return &Ctx{tab: map[string]*Term{}, Syms: map[string]*Term{}, Funcs: map[string][]int{}}
}

func (c *Ctx) mk(t *Term) *Term {
	var sb strings.Builder
	fmt.Fprintf(&sb, "%d/%d/", t.Op, t.W)
	switch t.Op {
	case OConst:
		if t.Big != nil {
			sb.WriteString(t.Big.Text(16))
		} else {
			fmt.Fprintf(&sb, "%x", t.Val)
		}
	case OSym, OApp:
		sb.WriteString(t.Name)
	case OExtract:
		fmt.Fprintf(&sb, "%d:%d", t.Hi, t.Lo)
	}
	for _, a := range t.Args {
		fmt.Fprintf(&sb, ",%d", a.ID)
	}
	k := sb.String()
	if old, ok := c.tab[k]; ok {
		return old
	}
	c.next++
	t.ID = c.next
	c.tab[k] = t
	return t
}

func mask(w int) uint64 {
	if w >= 64 {
		return ^uint64(0)
	}
	return (uint64(1) << uint(w)) - 1
}

func (c *Ctx) Bool(b bool) *Term {
	v := uint64(0)
	if b {
		v = 1
	}
	return c.mk(&Term{Op: OConst, W: 0, Val: v})
}

func (c *Ctx) True() *Term  { return c.Bool(true) }
func (c *Ctx) False() *Term { return c.Bool(false) }

func (c *Ctx) BV(v uint64, w int) *Term {
	if w > 64 {
		return c.BigBV(new(big.Int).SetUint64(v), w)
	}
	return c.mk(&Term{Op: OConst, W: w, Val: v & mask(w)})
}

func (c *Ctx) BigBV(v *big.Int, w int) *Term {
	m := new(big.Int).Lsh(big.NewInt(1), uint(w))
	x := new(big.Int).Mod(v, m)
	if w <= 64 {
		return c.BV(x.Uint64(), w)
	}
	return c.mk(&Term{Op: OConst, W: w, Big: x})
}

func (c *Ctx) Sym(name string, w int) *Term {
	t := c.mk(&Term{Op: OSym, W: w, Name: name})
	c.Syms[name] = t
	return t
}

func (t *Term) IsConst() bool { return t.Op == OConst }
func (t *Term) IsTrue() bool  { return t.Op == OConst && t.W == 0 && t.Val == 1 }
func (t *Term) IsFalse() bool { return t.Op == OConst && t.W == 0 && t.Val == 0 }

// BigVal returns the constant as big.Int (unsigned).
func (t *Term) BigVal() *big.Int {
	if t.Big != nil {
		return t.Big
	}
	return new(big.Int).SetUint64(t.Val)
}

func signed(v uint64, w int) int64 {
	if w >= 64 {
		return int64(v)
	}
	if v&(uint64(1)<<uint(w-1)) != 0 {
		return int64(v | ^mask(w))
	}
	return int64(v)
}

func (c *Ctx) Not(a *Term) *Term {
	if a.IsConst() {
		return c.Bool(a.Val == 0)
	}
	if a.Op == ONot {
		return a.Args[0]
	}
	return c.mk(&Term{Op: ONot, Args: []*Term{a}})
}

func (c *Ctx) And(a, b *Term) *Term {
	if a.IsConst() {
		if a.Val == 0 {
			return a
		}
		return b
	}
	if b.IsConst() {
		if b.Val == 0 {
			return b
		}
		return a
	}
	if a == b {
		return a
	}
	return c.mk(&Term{Op: OAnd, Args: []*Term{a, b}})
}

func (c *Ctx) Or(a, b *Term) *Term {
	if a.IsConst() {
		if a.Val == 1 {
			return a
		}
		return b
	}
	if b.IsConst() {
		if b.Val == 1 {
			return b
		}
		return a
	}
	if a == b {
		return a
	}
	return c.mk(&Term{Op: OOr, Args: []*Term{a, b}})
}

func (c *Ctx) Implies(a, b *Term) *Term { return c.Or(c.Not(a), b) }

func (c *Ctx) Ite(cond, a, b *Term) *Term {
	if cond.IsConst() {
		if cond.Val == 1 {
			return a
		}
		return b
	}
	if a == b {
		return a
	}
	if a.W == 0 && a.IsConst() && b.IsConst() {
		if a.Val == 1 && b.Val == 0 {
			return cond
		}
		if a.Val == 0 && b.Val == 1 {
			return c.Not(cond)
		}
	}
	return c.mk(&Term{Op: OIte, W: a.W, Args: []*Term{cond, a, b}})
}

func (c *Ctx) Eq(a, b *Term) *Term {
	if a.W != b.W {
		panic(fmt.Sprintf("smt.Eq width mismatch %d vs %d", a.W, b.W))
	}
	if a == b {
		return c.True()
	}
	if a.IsConst() && b.IsConst() {
		if a.Big != nil || b.Big != nil {
			return c.Bool(a.BigVal().Cmp(b.BigVal()) == 0)
		}
		return c.Bool(a.Val == b.Val)
	}
	if a.W == 0 {
		if a.IsConst() {
			if a.Val == 1 {
				return b
			}
			return c.Not(b)
		}
		if b.IsConst() {
			if b.Val == 1 {
				return a
			}
			return c.Not(a)
		}
	}
	if a.ID > b.ID {
		a, b = b, a
	}
	return c.mk(&Term{Op: OEq, Args: []*Term{a, b}})
}

func (c *Ctx) bin(op Op, a, b *Term) *Term {
	if a.W != b.W {
		panic(fmt.Sprintf("smt.bin %v width mismatch %d vs %d", opNames[op], a.W, b.W))
	}
	w := a.W
	if a.IsConst() && b.IsConst() {
		if r := foldBin(op, a, b); r != nil {
			return c.BigBV(r, w)
		}
	}
	// identities
	switch op {
	case OAdd, OBOr, OBXor:
		if isZero(a) {
			return b
		}
		if isZero(b) {
			return a
		}
	case OSub, OShl, OLShr, OAShr:
		if isZero(b) {
			return a
		}
	case OMul:
		if isZero(a) || isZero(b) {
			return c.BV(0, w)
		}
		if isOne(a) {
			return b
		}
		if isOne(b) {
			return a
		}
	case OBAnd:
		if isZero(a) || isZero(b) {
			return c.BV(0, w)
		}
		if isAllOnes(a) {
			return b
		}
		if isAllOnes(b) {
			return a
		}
		if a == b {
			return a
		}
	}
	if op == OBOr && a == b {
		return a
	}
	// (x + c1) + c2 -> x + (c1+c2); (x + c1) - c2 likewise
	if (op == OAdd || op == OSub) && b.IsConst() && a.Op == OAdd {
		for k := 0; k < 2; k++ {
			if a.Args[k].IsConst() {
				var cc *Term
				if op == OAdd {
					cc = c.bin(OAdd, a.Args[k], b)
				} else {
					cc = c.bin(OSub, a.Args[k], b)
				}
				return c.bin(OAdd, a.Args[1-k], cc)
			}
		}
	}
	if op == OAdd && a.IsConst() && b.Op == OAdd {
		return c.bin(OAdd, b, a)
	}
	if (op == OBXor || op == OSub) && a == b {
		return c.BV(0, w)
	}
	switch op {
	case OAdd, OMul, OBAnd, OBOr, OBXor:
		if a.ID > b.ID {
			a, b = b, a
		}
	}
	return c.mk(&Term{Op: op, W: w, Args: []*Term{a, b}})
}

func isZero(t *Term) bool { return t.IsConst() && t.BigVal().Sign() == 0 }
func isOne(t *Term) bool  { return t.IsConst() && t.Big == nil && t.Val == 1 }
func isAllOnes(t *Term) bool {
	if !t.IsConst() {
		return false
	}
	if t.Big == nil {
		return t.Val == mask(t.W)
	}
	m := new(big.Int).Lsh(big.NewInt(1), uint(t.W))
	m.Sub(m, big.NewInt(1))
	return t.Big.Cmp(m) == 0
}

func toSigned(v *big.Int, w int) *big.Int {
	if v.Bit(w-1) == 1 {
		m := new(big.Int).Lsh(big.NewInt(1), uint(w))
		return new(big.Int).Sub(v, m)
	}
	return new(big.Int).Set(v)
}

func foldBin(op Op, a, b *Term) *big.Int {
	w := a.W
	x, y := a.BigVal(), b.BigVal()
	r := new(big.Int)
	switch op {
	case OAdd:
		r.Add(x, y)
	case OSub:
		r.Sub(x, y)
	case OMul:
		r.Mul(x, y)
	case OUDiv:
		if y.Sign() == 0 {
			return allOnes(w)
		}
		r.Quo(x, y)
	case OURem:
		if y.Sign() == 0 {
			return new(big.Int).Set(x)
		}
		r.Rem(x, y)
	case OSDiv:
		sx, sy := toSigned(x, w), toSigned(y, w)
		if sy.Sign() == 0 {
			if sx.Sign() < 0 {
				return big.NewInt(1)
			}
			return allOnes(w)
		}
		r.Quo(sx, sy)
	case OSRem:
		sx, sy := toSigned(x, w), toSigned(y, w)
		if sy.Sign() == 0 {
			return new(big.Int).Set(x)
		}
		r.Rem(sx, sy)
	case OBAnd:
		r.And(x, y)
	case OBOr:
		r.Or(x, y)
	case OBXor:
		r.Xor(x, y)
	case OShl:
		if y.Cmp(big.NewInt(int64(w))) >= 0 {
			return big.NewInt(0)
		}
		r.Lsh(x, uint(y.Uint64()))
	case OLShr:
		if y.Cmp(big.NewInt(int64(w))) >= 0 {
			return big.NewInt(0)
		}
		r.Rsh(x, uint(y.Uint64()))
	case OAShr:
		sx := toSigned(x, w)
		sh := uint(w)
		if y.Cmp(big.NewInt(int64(w))) < 0 {
			sh = uint(y.Uint64())
		}
		r.Rsh(sx, sh)
	default:
		return nil
	}
	return r
}

func allOnes(w int) *big.Int {
	m := new(big.Int).Lsh(big.NewInt(1), uint(w))
	return m.Sub(m, big.NewInt(1))
}

func (c *Ctx) Add(a, b *Term) *Term  { return c.bin(OAdd, a, b) }
func (c *Ctx) Sub(a, b *Term) *Term  { return c.bin(OSub, a, b) }
func (c *Ctx) Mul(a, b *Term) *Term  { return c.bin(OMul, a, b) }
func (c *Ctx) UDiv(a, b *Term) *Term { return c.bin(OUDiv, a, b) }
func (c *Ctx) URem(a, b *Term) *Term { return c.bin(OURem, a, b) }
func (c *Ctx) SDiv(a, b *Term) *Term { return c.bin(OSDiv, a, b) }
func (c *Ctx) SRem(a, b *Term) *Term { return c.bin(OSRem, a, b) }
func (c *Ctx) BAnd(a, b *Term) *Term { return c.bin(OBAnd, a, b) }
func (c *Ctx) BOr(a, b *Term) *Term  { return c.bin(OBOr, a, b) }
func (c *Ctx) BXor(a, b *Term) *Term { return c.bin(OBXor, a, b) }
func (c *Ctx) Shl(a, b *Term) *Term  { return c.bin(OShl, a, b) }
func (c *Ctx) LShr(a, b *Term) *Term { return c.bin(OLShr, a, b) }
func (c *Ctx) AShr(a, b *Term) *Term { return c.bin(OAShr, a, b) }

func (c *Ctx) BNot(a *Term) *Term {
	if a.IsConst() {
		return c.BigBV(new(big.Int).Xor(a.BigVal(), allOnes(a.W)), a.W)
	}
	if a.Op == OBNot {
		return a.Args[0]
	}
	return c.mk(&Term{Op: OBNot, W: a.W, Args: []*Term{a}})
}

func (c *Ctx) Neg(a *Term) *Term {
	if a.IsConst() {
		return c.BigBV(new(big.Int).Neg(a.BigVal()), a.W)
	}
	return c.mk(&Term{Op: ONeg, W: a.W, Args: []*Term{a}})
}

func (c *Ctx) cmp(op Op, a, b *Term) *Term {
	if a.W != b.W {
		panic(fmt.Sprintf("smt.cmp width mismatch %d vs %d", a.W, b.W))
	}
	if a.IsConst() && b.IsConst() {
		x, y := a.BigVal(), b.BigVal()
		if op == OSlt || op == OSle {
			x, y = toSigned(x, a.W), toSigned(y, a.W)
		}
		r := x.Cmp(y)
		switch op {
		case OUlt, OSlt:
			return c.Bool(r < 0)
		default:
			return c.Bool(r <= 0)
		}
	}
	if a == b {
		return c.Bool(op == OUle || op == OSle)
	}
	if op == OUlt && isZero(b) {
		return c.False()
	}
	if op == OUle && isZero(a) {
		return c.True()
	}
	return c.mk(&Term{Op: op, Args: []*Term{a, b}})
}

func (c *Ctx) Ult(a, b *Term) *Term { return c.cmp(OUlt, a, b) }
func (c *Ctx) Ule(a, b *Term) *Term { return c.cmp(OUle, a, b) }
func (c *Ctx) Slt(a, b *Term) *Term { return c.cmp(OSlt, a, b) }
func (c *Ctx) Sle(a, b *Term) *Term { return c.cmp(OSle, a, b) }

func (c *Ctx) Extract(a *Term, hi, lo int) *Term {
	if hi < lo || hi >= a.W {
		panic(fmt.Sprintf("smt.Extract bad range %d:%d of %d", hi, lo, a.W))
	}
	w := hi - lo + 1
	if w == a.W {
		return a
	}
	if a.IsConst() {
		v := new(big.Int).Rsh(a.BigVal(), uint(lo))
		return c.BigBV(v, w)
	}
	switch a.Op {
	case OExtract:
		return c.Extract(a.Args[0], a.Lo+hi, a.Lo+lo)
	case OConcat:
		lw := a.Args[1].W
		if hi < lw {
			return c.Extract(a.Args[1], hi, lo)
		}
		if lo >= lw {
			return c.Extract(a.Args[0], hi-lw, lo-lw)
		}
	case OZExt:
		iw := a.Args[0].W
		if hi < iw {
			return c.Extract(a.Args[0], hi, lo)
		}
		if lo >= iw {
			return c.BV(0, w)
		}
	case OSExt:
		iw := a.Args[0].W
		if hi < iw {
			return c.Extract(a.Args[0], hi, lo)
		}
	case OBAnd, OBOr, OBXor:
		// push extract through bitwise ops when one side is constant (byte packing)
		if a.Args[0].IsConst() || a.Args[1].IsConst() {
			return c.bin(a.Op, c.Extract(a.Args[0], hi, lo), c.Extract(a.Args[1], hi, lo))
		}
		if w <= 8 {
			return c.bin(a.Op, c.Extract(a.Args[0], hi, lo), c.Extract(a.Args[1], hi, lo))
		}
	case OShl:
		if a.Args[1].IsConst() && a.Args[1].Big == nil {
			s := int(a.Args[1].Val)
			if lo >= s {
				return c.Extract(a.Args[0], hi-s, lo-s)
			}
			if hi < s {
				return c.BV(0, w)
			}
		}
	case OLShr:
		if a.Args[1].IsConst() && a.Args[1].Big == nil {
			s := int(a.Args[1].Val)
			if hi+s < a.W {
				return c.Extract(a.Args[0], hi+s, lo+s)
			}
			if lo+s >= a.W {
				return c.BV(0, w)
			}
		}
	}
	return c.mk(&Term{Op: OExtract, W: w, Args: []*Term{a}, Hi: hi, Lo: lo})
}

// Concat: a is the high part.
func (c *Ctx) Concat(a, b *Term) *Term {
	w := a.W + b.W
	if a.IsConst() && b.IsConst() {
		v := new(big.Int).Lsh(a.BigVal(), uint(b.W))
		v.Or(v, b.BigVal())
		return c.BigBV(v, w)
	}
	if a.Op == OExtract && b.Op == OExtract && a.Args[0] == b.Args[0] && a.Lo == b.Hi+1 {
		return c.Extract(a.Args[0], a.Hi, b.Lo)
	}
	return c.mk(&Term{Op: OConcat, W: w, Args: []*Term{a, b}})
}

func (c *Ctx) ZExt(a *Term, w int) *Term {
	if w == a.W {
		return a
	}
	if w < a.W {
		return c.Extract(a, w-1, 0)
	}
	if a.IsConst() {
		return c.BigBV(a.BigVal(), w)
	}
	if a.Op == OZExt {
		return c.ZExt(a.Args[0], w)
	}
	return c.mk(&Term{Op: OZExt, W: w, Args: []*Term{a}})
}

func (c *Ctx) SExt(a *Term, w int) *Term {
	if w == a.W {
		return a
	}
	if w < a.W {
		return c.Extract(a, w-1, 0)
	}
	if a.IsConst() {
		return c.BigBV(toSigned(a.BigVal(), a.W), w)
	}
	return c.mk(&Term{Op: OSExt, W: w, Args: []*Term{a}})
}

// App builds an uninterpreted function application with result width w.
func (c *Ctx) App(name string, w int, args ...*Term) *Term {
	sig := make([]int, 0, len(args)+1)
	for _, a := range args {
		sig = append(sig, a.W)
	}
	sig = append(sig, w)
	if old, ok := c.Funcs[name]; ok {
		if fmt.Sprint(old) != fmt.Sprint(sig) {
			panic("smt.App: inconsistent signature for " + name)
		}
	} else {
		c.Funcs[name] = sig
	}
	return c.mk(&Term{Op: OApp, W: w, Name: name, Args: args})
}

// BoolToBV converts Bool to 1-bit... used rarely.
func (c *Ctx) BoolToBV(b *Term, w int) *Term { return c.Ite(b, c.BV(1, w), c.BV(0, w)) }

// ---------------------------------------------------------------------------
// printing

func sortStr(w int) string {
	if w == 0 {
		return "Bool"
	}
	return fmt.Sprintf("(_ BitVec %d)", w)
}

func quote(name string) string { return "|" + name + "|" }

func constStr(t *Term) string {
	if t.W == 0 {
		if t.Val == 1 {
			return "true"
		}
		return "false"
	}
	if t.W%4 == 0 {
		s := t.BigVal().Text(16)
		for len(s) < t.W/4 {
			s = "0" + s
		}
		return "#x" + s
	}
	s := t.BigVal().Text(2)
	for len(s) < t.W {
		s = "0" + s
	}
	return "#b" + s
}

// Printer emits define-funs for shared subterms once per solver scope.
type Printer struct {
	Emitted  map[int]bool
	Declared map[string]bool
}

func NewPrinter() *Printer {
	return &Printer{Emitted: map[int]bool{}, Declared: map[string]bool{}}
}

func (p *Printer) ref(t *Term) string {
	switch t.Op {
	case OConst:
		return constStr(t)
	case OSym:
		return quote(t.Name)
	}
	return fmt.Sprintf("t%d", t.ID)
}

// Define writes the declarations/definitions needed to refer to t, and returns the reference.
func (p *Printer) Define(sb *strings.Builder, c *Ctx, t *Term) string {
	// iterative post-order
	type item struct {
		t    *Term
		done bool
	}
	stack := []item{{t, false}}
	for len(stack) > 0 {
		it := stack[len(stack)-1]
		stack = stack[:len(stack)-1]
		n := it.t
		if n.Op == OConst {
			continue
		}
		if n.Op == OSym {
			if !p.Declared[n.Name] {
				p.Declared[n.Name] = true
				fmt.Fprintf(sb, "(declare-const %s %s)\n", quote(n.Name), sortStr(n.W))
			}
			continue
		}
		if p.Emitted[n.ID] {
			continue
		}
		if !it.done {
			stack = append(stack, item{n, true})
			for _, a := range n.Args {
				stack = append(stack, item{a, false})
			}
			continue
		}
		p.Emitted[n.ID] = true
		var body string
		switch n.Op {
		case OExtract:
			body = fmt.Sprintf("((_ extract %d %d) %s)", n.Hi, n.Lo, p.ref(n.Args[0]))
		case OZExt:
			body = fmt.Sprintf("((_ zero_extend %d) %s)", n.W-n.Args[0].W, p.ref(n.Args[0]))
		case OSExt:
			body = fmt.Sprintf("((_ sign_extend %d) %s)", n.W-n.Args[0].W, p.ref(n.Args[0]))
		case OApp:
			fn := "uf_" + n.Name
			if !p.Declared[fn] {
				p.Declared[fn] = true
				sig := c.Funcs[n.Name]
				var as []string
				for _, w := range sig[:len(sig)-1] {
					as = append(as, sortStr(w))
				}
				fmt.Fprintf(sb, "(declare-fun %s (%s) %s)\n", quote(fn), strings.Join(as, " "), sortStr(sig[len(sig)-1]))
			}
			if len(n.Args) == 0 {
				body = quote(fn)
			} else {
				var as []string
				for _, a := range n.Args {
					as = append(as, p.ref(a))
				}
				body = "(" + quote(fn) + " " + strings.Join(as, " ") + ")"
			}
		default:
			var as []string
			for _, a := range n.Args {
				as = append(as, p.ref(a))
			}
			body = "(" + opNames[n.Op] + " " + strings.Join(as, " ") + ")"
		}
		fmt.Fprintf(sb, "(define-fun t%d () %s %s)\n", n.ID, sortStr(n.W), body)
	}
	return p.ref(t)
}

// String renders a term for humans (not SMT-LIB exact).
func (t *Term) String() string {
	var sb strings.Builder
	t.str(&sb, 0)
	return sb.String()
}

func (t *Term) str(sb *strings.Builder, depth int) {
	if depth > 12 {
		sb.WriteString("…")
		return
	}
	switch t.Op {
	case OConst:
		if t.W == 0 {
			sb.WriteString(constStr(t))
		} else {
			sb.WriteString(t.BigVal().String())
		}
	case OSym:
		sb.WriteString(t.Name)
	case OExtract:
		fmt.Fprintf(sb, "(extract %d %d ", t.Hi, t.Lo)
		t.Args[0].str(sb, depth+1)
		sb.WriteString(")")
	default:
		name := opNames[t.Op]
		switch t.Op {
		case OZExt:
			name = fmt.Sprintf("zext%d", t.W)
		case OSExt:
			name = fmt.Sprintf("sext%d", t.W)
		case OApp:
			name = t.Name
		}
		sb.WriteString("(" + name)
		for _, a := range t.Args {
			sb.WriteString(" ")
			a.str(sb, depth+1)
		}
		sb.WriteString(")")
	}
}

// ---------------------------------------------------------------------------
// evaluation under a model (symbols -> big.Int; missing symbols = 0)

type Model map[string]*big.Int

// Eval evaluates t under m. UF applications evaluate via ufs (may be nil => 0).
func (c *Ctx) Eval(t *Term, m Model) *big.Int {
	memo := map[int]*big.Int{}
	var ev func(t *Term) *big.Int
	ev = func(t *Term) *big.Int {
		if v, ok := memo[t.ID]; ok {
			return v
		}
		var r *big.Int
		switch t.Op {
		case OConst:
			r = t.BigVal()
		case OSym:
			if v, ok := m[t.Name]; ok {
				r = v
			} else {
				r = big.NewInt(0)
			}
		case OApp:
			r = big.NewInt(0)
		case ONot:
			r = big.NewInt(1 - ev(t.Args[0]).Int64())
		case OAnd:
			r = big.NewInt(ev(t.Args[0]).Int64() & ev(t.Args[1]).Int64())
		case OOr:
			r = big.NewInt(ev(t.Args[0]).Int64() | ev(t.Args[1]).Int64())
		case OIte:
			if ev(t.Args[0]).Sign() != 0 {
				r = ev(t.Args[1])
			} else {
				r = ev(t.Args[2])
			}
		case OEq:
			r = b2i(ev(t.Args[0]).Cmp(ev(t.Args[1])) == 0)
		case OUlt:
			r = b2i(ev(t.Args[0]).Cmp(ev(t.Args[1])) < 0)
		case OUle:
			r = b2i(ev(t.Args[0]).Cmp(ev(t.Args[1])) <= 0)
		case OSlt:
			w := t.Args[0].W
			r = b2i(toSigned(ev(t.Args[0]), w).Cmp(toSigned(ev(t.Args[1]), w)) < 0)
		case OSle:
			w := t.Args[0].W
			r = b2i(toSigned(ev(t.Args[0]), w).Cmp(toSigned(ev(t.Args[1]), w)) <= 0)
		case OBNot:
			r = new(big.Int).Xor(ev(t.Args[0]), allOnes(t.W))
		case ONeg:
			r = modw(new(big.Int).Neg(ev(t.Args[0])), t.W)
		case OExtract:
			r = modw(new(big.Int).Rsh(ev(t.Args[0]), uint(t.Lo)), t.W)
		case OConcat:
			r = new(big.Int).Lsh(ev(t.Args[0]), uint(t.Args[1].W))
			r.Or(r, ev(t.Args[1]))
		case OZExt:
			r = ev(t.Args[0])
		case OSExt:
			r = modw(toSigned(ev(t.Args[0]), t.Args[0].W), t.W)
		default:
			a := &Term{Op: OConst, W: t.W, Big: ev(t.Args[0])}
			b := &Term{Op: OConst, W: t.W, Big: ev(t.Args[1])}
			r = modw(foldBin(t.Op, a, b), t.W)
		}
		memo[t.ID] = r
		return r
	}
	return ev(t)
}

func b2i(b bool) *big.Int {
	if b {
		return big.NewInt(1)
	}
	return big.NewInt(0)
}

func modw(v *big.Int, w int) *big.Int {
	if w == 0 {
		return v
	}
	m := new(big.Int).Lsh(big.NewInt(1), uint(w))
	return new(big.Int).Mod(v, m)
}

// Symbols collects the OSym leaves of t.
func Symbols(t *Term, into map[string]*Term) {
	seen := map[int]bool{}
	var walk func(t *Term)
	walk = func(t *Term) {
		if seen[t.ID] {
			return
		}
		seen[t.ID] = true
		if t.Op == OSym {
			into[t.Name] = t
		}
		for _, a := range t.Args {
			walk(a)
		}
	}
	walk(t)
}
