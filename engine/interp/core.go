package interp

// Glue between the forked concrete interpreter and the symbolic machine:
// symbolic-aware instruction helpers, lazy package initialisation, path runner.

import (
	"bytes"
	"fmt"
	"go/token"
	"go/types"
	"runtime"
	"runtime/debug"
	"strings"

	"golang.org/x/tools/go/ssa"

	"gosym/smt"
)

func mustDeref(t types.Type) types.Type {
	if p, ok := t.Underlying().(*types.Pointer); ok {
		return p.Elem()
	}
	panic(fmt.Sprintf("mustDeref: not a pointer: %v", t))
}

func fnPkg(fn *ssa.Function) *ssa.Package {
	if fn.Pkg != nil {
		return fn.Pkg
	}
	if o := fn.Origin(); o != nil {
		return o.Pkg
	}
	return nil
}

type goFunc func(i *interpreter, args []value) value

// nativeMethods is implemented by engine-native objects stored inside interfaces.
type nativeMethods interface {
	callMethod(i *interpreter, name string, args []value) value
}

type nativeFn struct {
	name string
	recv nativeMethods
}

type obs struct {
	name string
	v    value
}

// copyVal returns an unaliased copy of v (deep for structs and arrays).
func copyVal(T types.Type, v value) value {
	switch v := v.(type) {
	case structure:
		var st *types.Struct
		if T != nil {
			st, _ = T.Underlying().(*types.Struct)
		}
		a := make(structure, len(v))
		for j := range v {
			var ft types.Type
			if st != nil && j < st.NumFields() {
				ft = st.Field(j).Type()
			}
			a[j] = copyVal(ft, v[j])
		}
		return a
	case array:
		var et types.Type
		if T != nil {
			if at, ok := T.Underlying().(*types.Array); ok {
				et = at.Elem()
			}
		}
		a := make(array, len(v))
		for j := range v {
			a[j] = copyVal(et, v[j])
		}
		return a
	}
	return v
}

// --- globals & package init -----------------------------------------------------

func (i *interpreter) global(g *ssa.Global) *value {
	if r, ok := i.globals[g]; ok {
		return r
	}
	cell := zero(mustDeref(g.Type()))
	p := &cell
	i.globals[g] = p
	if g.Pkg != nil {
		if !i.cfg.InitAllow(g.Pkg.Pkg.Path()) && !strings.HasPrefix(g.Name(), "init$") {
			if !zeroOKGlobal(g) {
				panic(unsupported("read of global " + g.String() + " of a package whose initialiser is not run"))
			}
		}
		i.ensureInit(g.Pkg)
	}
	return p
}

// zeroOKGlobal lists globals of non-initialised packages whose zero value is a faithful start.
func zeroOKGlobal(g *ssa.Global) bool {
	switch g.String() {
	case "crypto/rand.Reader", "internal/cpu.X86", "internal/cpu.ARM64", "errors.errorType", "context.goroutines", "time.localLoc", "time.utcLoc", "time.Local", "time.UTC":
		return true
	}
	return false
}

func (i *interpreter) ensureInit(pkg *ssa.Package) {
	if pkg == nil || i.inited[pkg] {
		return
	}
	i.inited[pkg] = true
	if !i.cfg.InitAllow(pkg.Pkg.Path()) {
		return
	}
	init := pkg.Func("init")
	if init == nil {
		return
	}
	i.runningInit[pkg] = true
	call(i, nil, token.NoPos, init, nil)
}

// --- symbolic-aware operators ---------------------------------------------------

func (i *interpreter) binop(op token.Token, t types.Type, x, y value) value {
	if isSym(x) || isSym(y) {
		return i.symBinop(op, t, x, y)
	}
	switch op {
	case token.EQL, token.NEQ:
		if containsSym(x) || containsSym(y) {
			return i.symBinop(op, t, x, y)
		}
	}
	return binop(op, t, x, y)
}

func (i *interpreter) unop(fr *frame, instr *ssa.UnOp, x value) value {
	switch instr.Op {
	case token.ARROW:
		elem := instr.X.Type().Underlying().(*types.Chan).Elem()
		v, ok := i.chanRecv(x, elem)
		if instr.CommaOk {
			return tuple{v, ok}
		}
		return v
	case token.MUL:
		switch p := x.(type) {
		case *value:
			if p == nil {
				panic(runtimeError("invalid memory address or nil pointer dereference"))
			}
			return load(mustDeref(instr.X.Type()), p)
		case *symRef:
			return i.loadSymRef(p)
		}
		panic(fmt.Sprintf("load from %T", x))
	}
	if s, ok := x.(sv); ok {
		return i.symUnop(instr.Op, s)
	}
	return unop(instr, x)
}

func (i *interpreter) storeTo(T types.Type, addr value, v value) {
	switch p := addr.(type) {
	case *value:
		if p == nil {
			panic(runtimeError("invalid memory address or nil pointer dereference"))
		}
		store(T, p, v)
	case *symRef:
		i.storeSymRef(p, v)
	default:
		panic(fmt.Sprintf("store to %T", addr))
	}
}

func (i *interpreter) conv(t_dst, t_src types.Type, x value) value {
	if o, ok := x.(*oslice); ok {
		x = i.materialize(o)
	}
	if s, ok := x.(sv); ok {
		if b, ok := t_dst.Underlying().(*types.Basic); ok {
			if b.Kind() == types.String {
				panic(unsupported("string(symbolic integer)"))
			}
			return i.symConv(b.Kind(), s)
		}
		panic(unsupported("conversion of symbolic scalar to " + t_dst.String()))
	}
	if s, ok := x.(sstr); ok {
		if sl, ok := t_dst.Underlying().(*types.Slice); ok {
			if sl.Elem().Underlying().(*types.Basic).Kind() == types.Rune {
				panic(unsupported("[]rune(symbolic string)"))
			}
		}
		_ = s
	}
	if sl, ok := t_src.Underlying().(*types.Slice); ok {
		if b, ok := sl.Elem().Underlying().(*types.Basic); ok && b.Kind() == types.Rune {
			for _, e := range x.([]value) {
				if isSym(e) {
					panic(unsupported("string([]rune) with symbolic runes"))
				}
			}
		}
	}
	return conv(t_dst, t_src, x)
}

func (i *interpreter) minmax(isMin bool) func(x, y value) value {
	return func(x, y value) value {
		if isSym(x) || isSym(y) {
			var lt value
			if isMin {
				lt = i.symBinop(token.LSS, nil, x, y)
			} else {
				lt = i.symBinop(token.GTR, nil, x, y)
			}
			switch c := lt.(type) {
			case bool:
				if c {
					return x
				}
				return y
			case sv:
				return i.iteVal(c.t, x, y)
			}
		}
		if isMin {
			return min(x, y)
		}
		return max(x, y)
	}
}

// --- slices, indexing --------------------------------------------------------------

// noteAlloc records the size of a slice growth (elements).
func (i *interpreter) noteAlloc(n int) {
	if n > i.res.MaxAlloc {
		i.res.MaxAlloc = n
	}
}

const maxConcreteAlloc = 1 << 26

func (i *interpreter) makeSlice(instr *ssa.MakeSlice, lenv, capv value) value {
	// negative / oversized lengths panic in Go
	for _, v := range []value{lenv, capv} {
		if s, ok := v.(sv); ok {
			w := s.t.W
			bad := i.ctx.Slt(s.t, i.ctx.BV(0, w))
			if !kindSigned(s.k) {
				bad = i.ctx.False()
			}
			// anything above 2^40 elements cannot be allocated: makeslice panics
			if w > 40 {
				bad = i.ctx.Or(bad, i.ctx.Not(i.ctx.Ult(s.t, i.ctx.BV(1<<40, w))))
			}
			if i.branch(bad) {
				panic(runtimeError("makeslice: len out of range"))
			}
		}
	}
	if ls, ok := lenv.(sv); ok {
		// record a symbolic allocation obligation before concretising
		i.symAlloc(ls)
		if i.opaqueAlloc {
			tElt := instr.Type().Underlying().(*types.Slice).Elem()
			if _, scalar := scalarKindOf(tElt); scalar {
				if cs, ok := capv.(sv); ok && cs.t == ls.t {
					return i.newOpaque(tElt, i.int64Term(ls))
				}
			}
		}
	}
	n := i.concInt(lenv)
	if cs, ok := capv.(sv); ok {
		if _, lenSym := lenv.(sv); !lenSym {
			// concrete length, symbolic capacity (a pre-allocation hint such as
			// make([]T, 0, header%limit)): the capacity has no observable effect beyond the
			// cap < len panic, so it is not enumerated: the panic is decided by the solver and the
			// slice gets the smallest capacity that fits. The allocation bound still applies.
			i.symAlloc(cs)
			small := i.ctx.Slt(i.int64Term(cs), i.ctx.BV(uint64(n), 64))
			if i.branch(small) {
				panic(runtimeError("makeslice: cap out of range"))
			}
			capv = int(n)
		}
	}
	c := i.concInt(capv)
	if n < 0 || c < n {
		panic(runtimeError("makeslice: len out of range"))
	}
	if c > maxConcreteAlloc {
		panic(pathAbort{"limit", fmt.Sprintf("allocation of %d elements", c)})
	}
	i.noteAlloc(int(c))
	slice := make([]value, c)
	tElt := instr.Type().Underlying().(*types.Slice).Elem()
	for j := range slice {
		slice[j] = zero(tElt)
	}
	return slice[:n]
}

// symAlloc: hook for allocation-bound claims; harness sets i.allocLimit via verifrt.AllocLimit.
func (i *interpreter) symAlloc(n sv) {
	if i.allocLimit <= 0 {
		return
	}
	over := i.ctx.Not(i.ctx.Ule(n.t, i.ctx.BV(uint64(i.allocLimit), n.t.W)))
	i.res.Obligations++
	r, m := i.check(over, true)
	switch r {
	case smt.Unsat:
		i.res.Discharged++
	case smt.Sat:
		i.failWith("alloc-limit", fmt.Sprintf("allocation larger than %d", i.allocLimit), over, m)
		i.addPC(i.ctx.Not(over))
	default:
		i.res.Unknown++
	}
}

func (i *interpreter) slice(x, lo, hi, max value) value {
	if o, ok := x.(*oslice); ok {
		return i.oSlice(o, lo, hi, max)
	}
	var Len, Cap int
	switch x := x.(type) {
	case string:
		Len = len(x)
		Cap = Len
	case sstr:
		Len = len(x)
		Cap = Len
	case []value:
		Len = len(x)
		Cap = cap(x)
	case *value: // *array
		if x == nil {
			panic(runtimeError("invalid memory address or nil pointer dereference"))
		}
		a := (*x).(array)
		Len = len(a)
		Cap = cap(a)
	}
	// Symbolic bounds: check 0 <= lo <= hi <= max <= cap, then concretise.
	if isSym(lo) || isSym(hi) || isSym(max) {
		c := i.ctx
		t64 := func(v value, def int) *smt.Term {
			if v == nil {
				return c.BV(uint64(def), 64)
			}
			s := i.term(v)
			if kindSigned(valueKind(v)) {
				return c.SExt(s, 64)
			}
			return c.ZExt(s, 64)
		}
		l, h, m := t64(lo, 0), t64(hi, Len), t64(max, Cap)
		ok := c.And(c.Sle(c.BV(0, 64), l), c.And(c.Sle(l, h), c.And(c.Sle(h, m), c.Sle(m, c.BV(uint64(Cap), 64)))))
		if !i.branch(ok) {
			panic(runtimeError("slice bounds out of range"))
		}
	}
	l := int64(0)
	if lo != nil {
		l = i.concInt(lo)
	}
	h := int64(Len)
	if hi != nil {
		h = i.concInt(hi)
	}
	m := int64(Cap)
	if max != nil {
		m = i.concInt(max)
	}
	if l < 0 || h < l || m < h || m > int64(Cap) {
		panic(runtimeError(fmt.Sprintf("slice bounds out of range [%d:%d:%d] with capacity %d", l, h, m, Cap)))
	}
	switch x := x.(type) {
	case string:
		return x[l:h]
	case sstr:
		return normStr(x[l:h:h])
	case []value:
		return x[l:h:m]
	case *value: // *array
		a := (*x).(array)
		return []value(a)[l:h:m]
	}
	panic(fmt.Sprintf("slice: unexpected X type: %T", x))
}

// symRef is a pointer to an element of a scalar vector at a symbolic index.
type symRef struct {
	base []value
	idx  *smt.Term // 64-bit
	kind types.BasicKind
}

func (i *interpreter) boundsCheck(idx value, n int) {
	s, ok := idx.(sv)
	if !ok {
		return
	}
	c := i.ctx
	var inb *smt.Term
	w := s.t.W
	nn := c.BV(uint64(n), w)
	if kindSigned(s.k) {
		if w < 64 && uint64(n) > (uint64(1)<<uint(w-1))-1 {
			// the length exceeds the index type's maximum: only negativity can fail
			inb = c.Sle(c.BV(0, w), s.t)
		} else {
			inb = c.And(c.Sle(c.BV(0, w), s.t), c.Slt(s.t, nn))
		}
	} else {
		if w < 64 && uint64(n) > (uint64(1)<<uint(w))-1 {
			return // every value of the index type is in range
		}
		inb = c.Ult(s.t, nn)
	}
	if !i.branch(inb) {
		panic(runtimeError(fmt.Sprintf("index out of range [symbolic] with length %d", n)))
	}
}

func scalarKindOf(t types.Type) (types.BasicKind, bool) {
	b, ok := t.Underlying().(*types.Basic)
	if !ok {
		return 0, false
	}
	if kindWidth(b.Kind()) > 0 {
		return b.Kind(), true
	}
	return 0, false
}

func onlyLoadsAndStores(instr *ssa.IndexAddr) bool {
	refs := instr.Referrers()
	if refs == nil {
		return false
	}
	for _, r := range *refs {
		switch r := r.(type) {
		case *ssa.UnOp:
			if r.Op != token.MUL {
				return false
			}
		case *ssa.Store:
			if r.Addr != instr {
				return false
			}
		case *ssa.DebugRef:
		default:
			return false
		}
	}
	return true
}

func (i *interpreter) indexAddr(instr *ssa.IndexAddr, x, idx value) value {
	var vec []value
	switch x := x.(type) {
	case *oslice:
		return i.oIndexAddr(x, idx)
	case []value:
		vec = x
	case *value: // *array
		if x == nil {
			panic(runtimeError("invalid memory address or nil pointer dereference"))
		}
		vec = (*x).(array)
	default:
		panic(fmt.Sprintf("unexpected x type in IndexAddr: %T", x))
	}
	if s, ok := idx.(sv); ok {
		i.boundsCheck(idx, len(vec))
		var et types.Type
		switch t := instr.X.Type().Underlying().(type) {
		case *types.Slice:
			et = t.Elem()
		case *types.Pointer:
			et = t.Elem().Underlying().(*types.Array).Elem()
		}
		if k, ok := scalarKindOf(et); ok && len(vec) > 1 && onlyLoadsAndStores(instr) {
			t := s.t
			if kindSigned(s.k) {
				t = i.ctx.SExt(t, 64)
			} else {
				t = i.ctx.ZExt(t, 64)
			}
			return &symRef{base: vec, idx: t, kind: k}
		}
		n := i.concInt(idx)
		return &vec[n]
	}
	n := asInt64(idx)
	if n < 0 || n >= int64(len(vec)) {
		panic(runtimeError(fmt.Sprintf("index out of range [%d] with length %d", n, len(vec))))
	}
	return &vec[n]
}

func (i *interpreter) loadSymRef(p *symRef) value {
	c := i.ctx
	w := kindWidth(p.kind)
	// build ite chain from the end; index already known in bounds
	acc := i.term(p.base[len(p.base)-1])
	for j := len(p.base) - 2; j >= 0; j-- {
		acc = c.Ite(c.Eq(p.idx, c.BV(uint64(j), 64)), i.term(p.base[j]), acc)
	}
	_ = w
	return mkval(acc, p.kind)
}

func (i *interpreter) storeSymRef(p *symRef, v value) {
	c := i.ctx
	nv := i.term(v)
	for j := range p.base {
		p.base[j] = mkval(c.Ite(c.Eq(p.idx, c.BV(uint64(j), 64)), nv, i.term(p.base[j])), p.kind)
	}
}

func (i *interpreter) index(x, idx value) value {
	switch x := x.(type) {
	case array:
		if _, ok := idx.(sv); ok {
			i.boundsCheck(idx, len(x))
			return i.indexVec(x, idx)
		}
		return x[asInt64(idx)]
	case string:
		if _, ok := idx.(sv); ok {
			i.boundsCheck(idx, len(x))
			xs, _ := asSstr(x)
			return i.indexVec(xs, idx)
		}
		n := asInt64(idx)
		if n < 0 || n >= int64(len(x)) {
			panic(runtimeError(fmt.Sprintf("index out of range [%d] with length %d", n, len(x))))
		}
		return x[n]
	case sstr:
		if _, ok := idx.(sv); ok {
			i.boundsCheck(idx, len(x))
			return i.indexVec(x, idx)
		}
		n := asInt64(idx)
		if n < 0 || n >= int64(len(x)) {
			panic(runtimeError(fmt.Sprintf("index out of range [%d] with length %d", n, len(x))))
		}
		return x[n]
	}
	panic(fmt.Sprintf("unexpected x type in Index: %T", x))
}

// indexVec reads vec[idx] for symbolic in-bounds idx: ite chain for scalars, fork otherwise.
func (i *interpreter) indexVec(vec []value, idx value) value {
	s := idx.(sv)
	if len(vec) > 0 && valueKind(vec[0]) != types.Invalid {
		c := i.ctx
		k := valueKind(vec[0])
		acc := i.term(vec[len(vec)-1])
		for j := len(vec) - 2; j >= 0; j-- {
			acc = c.Ite(c.Eq(s.t, c.BV(uint64(j), s.t.W)), i.term(vec[j]), acc)
		}
		return mkval(acc, k)
	}
	return vec[i.concInt(idx)]
}

func (i *interpreter) lookup(instr *ssa.Lookup, x, idx value) value {
	switch x := x.(type) {
	case *omap:
		var v value
		ok := false
		if p := i.mapFind(x, idx); p >= 0 {
			v, ok = x.vals[p], true
		} else {
			v = zero(instr.X.Type().Underlying().(*types.Map).Elem())
		}
		if instr.CommaOk {
			v = tuple{v, ok}
		}
		return v
	case string, sstr:
		return i.index(x, idx)
	}
	panic(fmt.Sprintf("unexpected x type in Lookup: %T", x))
}

type sstrIter struct {
	i   *interpreter
	s   sstr
	pos int
}

// next decodes one rune; symbolic bytes are supported only when the harness constrained them
// enough for the decoder branches to be decided (it forks via the interpreter otherwise).
func (it *sstrIter) next() tuple {
	if it.pos >= len(it.s) {
		return tuple{false, nil, nil}
	}
	i := it.i
	start := it.pos
	r, size := i.decodeRune(it.s[it.pos:])
	it.pos += size
	return tuple{true, start, r}
}

func (i *interpreter) rangeIter(x value) iter {
	switch x := x.(type) {
	case *omap:
		it := &omapIter{i: i, m: x}
		if x != nil {
			it.keys = append([]value{}, x.keys...)
		} else {
			it.m = &omap{}
		}
		return it
	case string:
		return &stringIter{Reader: strings.NewReader(x)}
	case sstr:
		return &sstrIter{i: i, s: x}
	}
	panic(fmt.Sprintf("cannot range over %T", x))
}

// decodeRune decodes the first UTF-8 sequence of s (forking on symbolic bytes).
func (i *interpreter) decodeRune(s sstr) (value, int) {
	// Delegate to the interpreted unicode/utf8.DecodeRuneInString on an sstr argument.
	pkg := i.prog.ImportedPackage("unicode/utf8")
	if pkg == nil {
		panic(unsupported("range over symbolic string needs unicode/utf8 in the program"))
	}
	fn := pkg.Func("DecodeRuneInString")
	res := call(i, nil, token.NoPos, fn, []value{normStr(s)}).(tuple)
	return res[0], int(i.concInt(res[1]))
}

// --- panics ---------------------------------------------------------------------------

func panicText(r any) string {
	switch p := r.(type) {
	case targetPanic:
		return "panic: " + toStringShort(p.v)
	case runtimeError:
		return "panic: " + p.Error()
	case runtime.Error:
		return "panic: " + p.Error()
	case string:
		return "panic: " + p
	}
	return fmt.Sprintf("panic: %v", r)
}

func toStringShort(v value) string {
	var b bytes.Buffer
	if itf, ok := v.(iface); ok {
		if s, ok := itf.v.(string); ok {
			return s
		}
	}
	writeValue(&b, v)
	s := b.String()
	if len(s) > 200 {
		s = s[:200]
	}
	return s
}

// isTargetPanic classifies a recovered Go panic value: target-level panic or engine bug.
func isTargetPanic(r any) bool {
	switch p := r.(type) {
	case targetPanic, runtimeError:
		return true
	case runtime.Error:
		msg := p.Error()
		for _, s := range []string{"index out of range", "slice bounds out of range", "nil pointer dereference",
			"integer divide by zero", "makeslice", "negative shift", "nil map"} {
			if strings.Contains(msg, s) {
				return true
			}
		}
	}
	return false
}

func (i *interpreter) recordPanic(r any) {
	i.lastPanic = panicText(r)
}

// --- path runner -----------------------------------------------------------------------

// RunPath executes the harness once along prefix and returns what happened.
func RunPath(cfg *Config, sess *smt.Session, prefix []Decision) (res *PathResult) {
	ctx := smt.NewCtx()
	sess.SetCtx(ctx)
	i := &interpreter{
		prog:        cfg.Prog,
		globals:     make(map[*ssa.Global]*value),
		sizes:       cfg.Sizes,
		cfg:         cfg,
		ctx:         ctx,
		sess:        sess,
		prefix:      prefix,
		nondetCount: map[string]int{},
		inited:      map[*ssa.Package]bool{},
		runningInit: map[*ssa.Package]bool{},
		side:        map[*value]any{},
		sideAny:     map[any]any{},
		hooks:       map[string]value{},
		ufUsed:      map[string]bool{},
		ufConcrete:  map[string][]ufFact{},
	}
	if cfg.Trace {
		i.mode |= EnableTracing
	}
	res = &PathResult{Prefix: prefix, Funcs: map[string]bool{}, Stubs: map[string]bool{}}
	i.res = res
	if rp := cfg.Prog.ImportedPackage("runtime"); rp != nil {
		i.runtimeErrorString = rp.Type("errorString").Object().Type()
	}
	i.initSched()
	defer func() {
		r := recover()
		i.killAll()
		res.Trail = i.trail
		res.Steps = i.steps
		if i.abortReason != nil {
			r = *i.abortReason
		}
		switch p := r.(type) {
		case nil:
			res.Status = "ok"
		case pathAbort:
			res.Status = p.kind
			res.Msg = p.msg
			if p.kind == "end" {
				res.Status = "cut"
			}
			if p.kind == "panic" {
				// panic in a spawned goroutine: already recorded text
				i.reportPanic(p.msg)
			}
		default:
			if isTargetPanic(r) {
				res.Status = "panic"
				res.Msg = panicText(r) + "\n" + i.panicTrace
				i.reportPanic(res.Msg)
			} else {
				res.Status = "internal"
				res.Msg = fmt.Sprintf("%v\n%s", r, debug.Stack())
			}
		}
		if res.Status == "ok" || res.Status == "panic" || res.Status == "deadlock" {
			i.finishWitness()
		}
	}()
	call(i, nil, token.NoPos, cfg.Harness, nil)
	return
}

// reportPanic turns an uncaught panic into a failure with a model (property: no crash).
func (i *interpreter) reportPanic(msg string) {
	i.killed = false // allow solver use
	i.res.Obligations++
	i.fail("panic", msg, nil)
}

func (i *interpreter) finishWitness() {
	if !i.cfg.WantWitness || i.cfg.Concrete != nil {
		i.renderObserved(nil)
		return
	}
	r, m := i.check(nil, true)
	if r == smt.Sat {
		i.res.Witness = hexModel(m)
		i.renderObserved(m)
	}
}

func (i *interpreter) renderObserved(m smt.Model) {
	for _, o := range i.observed {
		i.res.Observed = append(i.res.Observed, o.name+"="+i.render(o.v, m))
	}
}

// render prints v with symbolic parts evaluated under m.
func (i *interpreter) render(v value, m smt.Model) string {
	var sb strings.Builder
	var w func(v value)
	w = func(v value) {
		switch v := v.(type) {
		case sv:
			if m == nil {
				sb.WriteString("?")
				return
			}
			b := i.ctx.Eval(v.t, m)
			fmt.Fprintf(&sb, "%v", constOfKind(b, v.k))
		case sstr:
			bs := make([]byte, len(v))
			for j, e := range v {
				switch e := e.(type) {
				case uint8:
					bs[j] = e
				case sv:
					if m != nil {
						bs[j] = byte(i.ctx.Eval(e.t, m).Uint64())
					}
				}
			}
			fmt.Fprintf(&sb, "%q", string(bs))
		case string:
			fmt.Fprintf(&sb, "%q", v)
		case []value:
			sb.WriteString("[")
			for j, e := range v {
				if j > 0 {
					sb.WriteString(" ")
				}
				w(e)
			}
			sb.WriteString("]")
		case array:
			w([]value(v))
		case structure:
			sb.WriteString("{")
			for j, e := range v {
				if j > 0 {
					sb.WriteString(" ")
				}
				w(e)
			}
			sb.WriteString("}")
		case iface:
			if v.t == nil {
				sb.WriteString("<nil>")
			} else {
				w(v.v)
			}
		case *value:
			if v == nil {
				sb.WriteString("<nil>")
			} else {
				sb.WriteString("&")
				w(*v)
			}
		case bool, int, int8, int16, int32, int64, uint, uint8, uint16, uint32, uint64, uintptr:
			fmt.Fprintf(&sb, "%v", v)
		default:
			fmt.Fprintf(&sb, "<%T>", v)
		}
	}
	w(v)
	return sb.String()
}
