package interp

import (
	"fmt"
	"go/token"
	"go/types"
	"strings"

	"golang.org/x/tools/go/ssa"
)

// findMethod returns the method `name` of the dynamic type of x, or nil.
func (i *interpreter) findMethod(x iface, name string) *ssa.Function {
	if x.t == nil {
		return nil
	}
	ms := i.prog.MethodSets.MethodSet(x.t)
	for k := 0; k < ms.Len(); k++ {
		sel := ms.At(k)
		if sel.Obj().Name() == name && sel.Obj().Exported() {
			return i.prog.MethodValue(sel)
		}
	}
	return nil
}

func (i *interpreter) callMethod(x iface, name string, args ...value) (value, bool) {
	fn := i.findMethod(x, name)
	if fn == nil {
		return nil, false
	}
	all := append([]value{x.v}, args...)
	return call(i, nil, token.NoPos, fn, all), true
}

func (i *interpreter) errorText(e iface) string {
	if e.t == nil {
		return "<nil>"
	}
	r, ok := i.callMethod(e, "Error")
	if !ok {
		return "?"
	}
	return strArg(r)
}

func ifaceEq(a, b iface) (eq bool) {
	if !sameType(a.t, b.t) {
		return false
	}
	if a.t == nil {
		return true
	}
	if !types.Comparable(a.t) {
		return false
	}
	defer func() {
		if recover() != nil {
			eq = false
		}
	}()
	if containsSym(a.v) || containsSym(b.v) {
		return false
	}
	return equals(a.t, a.v, b.v)
}

func (i *interpreter) errorsIs(err, target iface) bool {
	for depth := 0; depth < 64; depth++ {
		if err.t == nil {
			return target.t == nil
		}
		if ifaceEq(err, target) {
			return true
		}
		if fn := i.findMethod(err, "Is"); fn != nil && fn.Signature.Params().Len() == 1 && fn.Signature.Results().Len() == 1 {
			r := call(i, nil, token.NoPos, fn, []value{err.v, target})
			if i.branchVal(r) {
				return true
			}
		}
		fn := i.findMethod(err, "Unwrap")
		if fn == nil || fn.Signature.Results().Len() != 1 {
			return false
		}
		r := call(i, nil, token.NoPos, fn, []value{err.v})
		switch r := r.(type) {
		case iface:
			if r.t == nil {
				return false
			}
			err = r
		case []value:
			for _, e := range r {
				if i.errorsIs(e.(iface), target) {
					return true
				}
			}
			return false
		default:
			return false
		}
	}
	return false
}

func (i *interpreter) errorsAs(err iface, target iface) bool {
	pt, ok := target.t.Underlying().(*types.Pointer)
	if !ok || target.v.(*value) == nil {
		panic(targetPanic{iface{t: types.Typ[types.String], v: "errors: target must be a non-nil pointer"}})
	}
	T := pt.Elem()
	dst := target.v.(*value)
	for depth := 0; depth < 64; depth++ {
		if err.t == nil {
			return false
		}
		if it, ok := T.Underlying().(*types.Interface); ok {
			if checkInterface(it, err) == "" {
				*dst = err
				return true
			}
		} else if types.Identical(err.t, T) {
			store(T, dst, copyVal(T, err.v))
			return true
		}
		if fn := i.findMethod(err, "As"); fn != nil && fn.Signature.Params().Len() == 1 {
			r := call(i, nil, token.NoPos, fn, []value{err.v, target})
			if i.branchVal(r) {
				return true
			}
		}
		fn := i.findMethod(err, "Unwrap")
		if fn == nil || fn.Signature.Results().Len() != 1 {
			return false
		}
		r := call(i, nil, token.NoPos, fn, []value{err.v})
		switch r := r.(type) {
		case iface:
			if r.t == nil {
				return false
			}
			err = r
		case []value:
			for _, e := range r {
				if i.errorsAs(e.(iface), target) {
					return true
				}
			}
			return false
		default:
			return false
		}
	}
	return false
}

// miniSprintf: best-effort formatting of concrete arguments. Returns text and indexes of %w args.
func (i *interpreter) miniSprintf(format string, args []value) (string, []int) {
	var sb strings.Builder
	var wraps []int
	ai := 0
	for p := 0; p < len(format); p++ {
		c := format[p]
		if c != '%' {
			sb.WriteByte(c)
			continue
		}
		p++
		if p >= len(format) {
			break
		}
		if format[p] == '%' {
			sb.WriteByte('%')
			continue
		}
		for p < len(format) && strings.IndexByte("+-# 0123456789.*", format[p]) >= 0 {
			if format[p] == '*' {
				ai++
			}
			p++
		}
		if p >= len(format) {
			break
		}
		verb := format[p]
		if ai >= len(args) {
			sb.WriteString("%!" + string(verb) + "(MISSING)")
			continue
		}
		a := args[ai]
		if verb == 'w' {
			wraps = append(wraps, ai)
		}
		ai++
		sb.WriteString(i.fmtArg(a, verb))
	}
	return sb.String(), wraps
}

func (i *interpreter) fmtArg(a value, verb byte) string {
	if itf, ok := a.(iface); ok {
		if itf.t == nil {
			return "<nil>"
		}
		if i.findMethod(itf, "Error") != nil && verb != 'T' && verb != 'd' && verb != 'x' {
			if i.fmtDepth > 4 {
				return "?"
			}
			i.fmtDepth++
			defer func() { i.fmtDepth-- }()
			return i.errorText(itf)
		}
		if verb == 'T' {
			return itf.t.String()
		}
		a = itf.v
	}
	switch v := a.(type) {
	case string:
		if verb == 'q' {
			return fmt.Sprintf("%q", v)
		}
		return v
	case bool, int, int8, int16, int32, int64, uint, uint8, uint16, uint32, uint64, uintptr, float32, float64:
		switch verb {
		case 'x':
			return fmt.Sprintf("%x", v)
		case 'X':
			return fmt.Sprintf("%X", v)
		case 'c':
			return fmt.Sprintf("%c", v)
		case 'q':
			return fmt.Sprintf("%q", v)
		}
		return fmt.Sprintf("%v", v)
	case sv, sstr:
		return "?"
	}
	return "?"
}

func (i *interpreter) fmtType(name string) types.Type {
	pkg := i.prog.ImportedPackage("fmt")
	if pkg == nil {
		panic(unsupported("fmt not in program"))
	}
	return pkg.Type(name).Object().Type()
}

func (i *interpreter) stdErrorsNew(text string) value {
	pkg := i.prog.ImportedPackage("errors")
	return call(i, nil, token.NoPos, pkg.Func("New"), []value{text})
}

func initErrFmtModels() {
	externals["errors.Is"] = func(fr *frame, args []value) value {
		return fr.i.errorsIs(args[0].(iface), args[1].(iface))
	}
	externals["errors.As"] = func(fr *frame, args []value) value {
		return fr.i.errorsAs(args[0].(iface), args[1].(iface))
	}
	externals["(*github.com/go-faster/errors.wrapError).Error"] = func(fr *frame, args []value) value {
		st := (*nonNil(args[0])).(structure)
		msg := strArg(st[0])
		inner := st[1].(iface)
		if inner.t == nil {
			return msg
		}
		return msg + ": " + fr.i.errorText(inner)
	}
	externals["fmt.Sprintf"] = func(fr *frame, args []value) value {
		s, _ := fr.i.miniSprintf(strArg(args[0]), args[1].([]value))
		return s
	}
	sprint := func(sep string, nl bool) externalFn {
		return func(fr *frame, args []value) value {
			var sb strings.Builder
			for j, a := range args[0].([]value) {
				if j > 0 {
					sb.WriteString(sep)
				}
				sb.WriteString(fr.i.fmtArg(a, 'v'))
			}
			if nl {
				sb.WriteString("\n")
			}
			return sb.String()
		}
	}
	externals["fmt.Sprint"] = sprint("", false)
	externals["fmt.Sprintln"] = sprint(" ", true)
	externals["fmt.Errorf"] = func(fr *frame, args []value) value {
		i := fr.i
		as := args[1].([]value)
		msg, wraps := i.miniSprintf(strArg(args[0]), as)
		switch len(wraps) {
		case 0:
			return i.stdErrorsNew(msg)
		case 1:
			T := i.fmtType("wrapError")
			obj := zero(T).(structure)
			obj[0] = msg
			if e, ok := as[wraps[0]].(iface); ok && e.t != nil && i.findMethod(e, "Error") != nil {
				obj[1] = e
			}
			p := new(value)
			*p = obj
			return iface{t: types.NewPointer(T), v: p}
		default:
			T := i.fmtType("wrapErrors")
			obj := zero(T).(structure)
			obj[0] = msg
			var errs []value
			for _, w := range wraps {
				if e, ok := as[w].(iface); ok && e.t != nil {
					errs = append(errs, e)
				}
			}
			obj[1] = errs
			p := new(value)
			*p = obj
			return iface{t: types.NewPointer(T), v: p}
		}
	}
	fprint := func(format bool) externalFn {
		return func(fr *frame, args []value) value {
			i := fr.i
			var s string
			if format {
				s, _ = i.miniSprintf(strArg(args[1]), args[2].([]value))
			} else {
				var sb strings.Builder
				for _, a := range args[1].([]value) {
					sb.WriteString(i.fmtArg(a, 'v'))
				}
				s = sb.String()
			}
			w := args[0].(iface)
			bs := make([]value, len(s))
			for j := 0; j < len(s); j++ {
				bs[j] = s[j]
			}
			r, ok := i.callMethod(w, "Write", bs)
			if !ok {
				panic(unsupported("fmt.Fprint to writer without Write"))
			}
			return r
		}
	}
	externals["fmt.Fprintf"] = fprint(true)
	externals["fmt.Fprint"] = fprint(false)
	externals["fmt.Fprintln"] = fprint(false)

	// --- sort ------------------------------------------------------------------------
	sortIface := func(fr *frame, args []value) value {
		i := fr.i
		data := args[0].(iface)
		nv, _ := i.callMethod(data, "Len")
		n := int(i.concInt(nv))
		for a := 1; a < n; a++ {
			for b := a; b > 0; b-- {
				lt, _ := i.callMethod(data, "Less", b, b-1)
				if !i.branchVal(lt) {
					break
				}
				i.callMethod(data, "Swap", b, b-1)
			}
		}
		return nil
	}
	externals["sort.Sort"] = sortIface
	externals["sort.Stable"] = sortIface
	sortSlice := func(fr *frame, args []value) value {
		i := fr.i
		x := args[0].(iface)
		s, ok := x.v.([]value)
		if !ok {
			panic(unsupported("sort.Slice on non-slice"))
		}
		less := args[1]
		for a := 1; a < len(s); a++ {
			for b := a; b > 0; b-- {
				lt := call(i, fr, token.NoPos, less, []value{b, b - 1})
				if !i.branchVal(lt) {
					break
				}
				s[b], s[b-1] = s[b-1], s[b]
			}
		}
		return nil
	}
	externals["sort.Slice"] = sortSlice
	externals["sort.SliceStable"] = sortSlice
}
