package interp

import (
	"go/types"
	"math"

	"gosym/smt"
)

// verifrt.SameValue(a, b any) bool: deep structural equality of two values of the same dynamic
// type as a solver term: pointers are followed, slices compare by length and elements (nil and
// empty are the same), floats compare by bit pattern, strings and scalars by value. Lenient where
// the engine has no element-wise view (opaque slices with symbolic length, maps, channels,
// functions): those parts count as equal. The native twin in rt/verifrt.go follows the same rules.
func initDeepEqModel() {
	{
		externals[rtPath+".SameValue"] = func(fr *frame, args []value) value {
			i := fr.i
			x, _ := args[0].(iface)
			y, _ := args[1].(iface)
			if x.t == nil || y.t == nil {
				return x.t == nil && y.t == nil
			}
			if !sameType(x.t, y.t) {
				return false
			}
			t := i.deepEq(x.t, x.v, y.v, 0)
			if t.IsTrue() {
				return true
			}
			if t.IsFalse() {
				return false
			}
			return sv{t, types.Bool}
		}
	}
}

func (i *interpreter) deepEq(t types.Type, x, y value, depth int) *smt.Term {
	c := i.ctx
	if depth > 48 {
		return c.True()
	}
	switch u := t.Underlying().(type) {
	case *types.Pointer:
		px, _ := x.(*value)
		py, _ := y.(*value)
		if px == nil || py == nil {
			return c.Bool(px == nil && py == nil)
		}
		if px == py {
			return c.True()
		}
		return i.deepEq(u.Elem(), *px, *py, depth+1)
	case *types.Slice:
		xs, okx := x.([]value)
		ys, oky := y.([]value)
		if !okx || !oky {
			return c.True() // opaque slice: no element-wise view
		}
		if len(xs) != len(ys) {
			return c.False()
		}
		r := c.True()
		for j := range xs {
			r = c.And(r, i.deepEq(u.Elem(), xs[j], ys[j], depth+1))
			if r.IsFalse() {
				return r
			}
		}
		return r
	case *types.Interface:
		xi, _ := x.(iface)
		yi, _ := y.(iface)
		if xi.t == nil || yi.t == nil {
			return c.Bool(xi.t == nil && yi.t == nil)
		}
		if !sameType(xi.t, yi.t) {
			return c.False()
		}
		return i.deepEq(xi.t, xi.v, yi.v, depth+1)
	case *types.Struct:
		xs, okx := x.(structure)
		ys, oky := y.(structure)
		if !okx || !oky {
			return c.True()
		}
		r := c.True()
		for j, n := 0, u.NumFields(); j < n; j++ {
			r = c.And(r, i.deepEq(u.Field(j).Type(), xs[j], ys[j], depth+1))
			if r.IsFalse() {
				return r
			}
		}
		return r
	case *types.Array:
		xs, okx := x.(array)
		ys, oky := y.(array)
		if !okx || !oky {
			return c.True()
		}
		r := c.True()
		for j := range xs {
			r = c.And(r, i.deepEq(u.Elem(), xs[j], ys[j], depth+1))
			if r.IsFalse() {
				return r
			}
		}
		return r
	case *types.Basic:
		switch u.Kind() {
		case types.Float64, types.Float32:
			bits := func(v value) *smt.Term {
				switch v := v.(type) {
				case float64:
					return c.BV(math.Float64bits(v), 64)
				case float32:
					return c.BV(uint64(math.Float32bits(v)), 32)
				case sv:
					return v.t
				}
				return nil
			}
			a, b := bits(x), bits(y)
			if a == nil || b == nil || a.W != b.W {
				return c.True()
			}
			return c.Eq(a, b)
		}
		return i.eqTerm(t, x, y)
	}
	return c.True()
}
