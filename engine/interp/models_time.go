package interp

import (
	"go/token"
	"go/types"
)

type timerState struct {
	vt     *vtimer
	ch     *channel
	fn     value // AfterFunc callback
	period int64
}

func (i *interpreter) timePkgFunc(name string) value {
	pkg := i.prog.ImportedPackage("time")
	if pkg == nil {
		panic(unsupported("time package not in program"))
	}
	return pkg.Func(name)
}

// mkTime builds a time.Time for virtual instant nanos (Unix).
func (i *interpreter) mkTime(nanos int64) value {
	return call(i, nil, token.NoPos, i.timePkgFunc("Unix"), []value{int64(nanos / 1e9), int64(nanos % 1e9)})
}

func (i *interpreter) timeType(name string) types.Type {
	pkg := i.prog.ImportedPackage("time")
	return pkg.Type(name).Object().Type()
}

func (i *interpreter) newTimerObj(typeName string) (*value, structure) {
	T := i.timeType(typeName)
	obj := zero(T)
	p := new(value)
	*p = obj
	return p, obj.(structure)
}

func (i *interpreter) armTimer(ts *timerState, d int64) {
	if d < 0 {
		d = 0
	}
	ts.vt = i.addTimer(i.sch.now+d, func() { i.fireTimer(ts) })
}

func (i *interpreter) fireTimer(ts *timerState) {
	if ts.fn != nil {
		i.spawn(token.NoPos, ts.fn, nil)
		return
	}
	// non-blocking send of the current time
	if ts.ch.closed {
		return
	}
	if w := ts.ch.recvq.popLive(); w != nil {
		w.st.done, w.st.idx, w.st.val, w.st.ok = true, w.idx, i.mkTime(i.sch.now), true
	} else if len(ts.ch.buf) < ts.ch.cap {
		ts.ch.buf = append(ts.ch.buf, i.mkTime(i.sch.now))
	}
	if ts.period > 0 {
		i.armTimer(ts, ts.period)
	}
}

func initTimeModels() {
	externals["time.Now"] = func(fr *frame, args []value) value { return fr.i.mkTime(fr.i.sch.now) }
	externals["time.runtimeNano"] = func(fr *frame, args []value) value { return fr.i.sch.now }
	externals["time.Sleep"] = func(fr *frame, args []value) value {
		i := fr.i
		d := i.concInt(args[0])
		if d <= 0 {
			i.yield()
			return nil
		}
		done := false
		i.addTimer(i.sch.now+d, func() { done = true })
		i.block(func() bool { return done }, "sleep")
		return nil
	}
	newTimer := func(i *interpreter, d int64) (*value, *timerState) {
		p, st := i.newTimerObj("Timer")
		ts := &timerState{ch: i.makeChan(i.timeType("Time"), 1)}
		st[0] = ts.ch
		i.side[p] = ts
		i.armTimer(ts, d)
		return p, ts
	}
	externals["time.NewTimer"] = func(fr *frame, args []value) value {
		p, _ := newTimer(fr.i, fr.i.concInt(args[0]))
		return p
	}
	externals["time.After"] = func(fr *frame, args []value) value {
		_, ts := newTimer(fr.i, fr.i.concInt(args[0]))
		return ts.ch
	}
	externals["time.AfterFunc"] = func(fr *frame, args []value) value {
		i := fr.i
		p, _ := i.newTimerObj("Timer")
		ts := &timerState{fn: args[1]}
		i.side[p] = ts
		i.armTimer(ts, i.concInt(args[0]))
		return p
	}
	tstate := func(i *interpreter, p value) *timerState {
		s, ok := i.side[nonNil(p)]
		if !ok {
			panic(targetPanic{iface{t: types.Typ[types.String], v: "time: Stop/Reset called on uninitialized Timer"}})
		}
		return s.(*timerState)
	}
	externals["(*time.Timer).Stop"] = func(fr *frame, args []value) value {
		ts := tstate(fr.i, args[0])
		active := ts.vt != nil && !ts.vt.fired && !ts.vt.stopped
		if ts.vt != nil {
			ts.vt.stopped = true
		}
		if ts.ch != nil {
			ts.ch.buf = nil
		}
		return active
	}
	externals["(*time.Timer).Reset"] = func(fr *frame, args []value) value {
		i := fr.i
		ts := tstate(i, args[0])
		active := ts.vt != nil && !ts.vt.fired && !ts.vt.stopped
		if ts.vt != nil {
			ts.vt.stopped = true
		}
		if ts.ch != nil {
			ts.ch.buf = nil
		}
		i.armTimer(ts, i.concInt(args[1]))
		return active
	}
	externals["time.NewTicker"] = func(fr *frame, args []value) value {
		i := fr.i
		d := i.concInt(args[0])
		if d <= 0 {
			panic(targetPanic{iface{t: types.Typ[types.String], v: "non-positive interval for NewTicker"}})
		}
		p, st := i.newTimerObj("Ticker")
		ts := &timerState{ch: i.makeChan(i.timeType("Time"), 1), period: d}
		st[0] = ts.ch
		i.side[p] = ts
		i.armTimer(ts, d)
		return p
	}
	externals["(*time.Ticker).Stop"] = func(fr *frame, args []value) value {
		ts := tstate(fr.i, args[0])
		if ts.vt != nil {
			ts.vt.stopped = true
		}
		ts.period = 0
		return nil
	}
	externals["(*time.Ticker).Reset"] = func(fr *frame, args []value) value {
		i := fr.i
		ts := tstate(i, args[0])
		if ts.vt != nil {
			ts.vt.stopped = true
		}
		ts.period = i.concInt(args[1])
		i.armTimer(ts, ts.period)
		return nil
	}
}
