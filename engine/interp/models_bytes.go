package interp

import (
	"go/token"
	"go/types"
)

func bytesOf(v value) []value {
	switch v := v.(type) {
	case []value:
		return v
	case string, sstr:
		s, _ := asSstr(v)
		return s
	}
	return nil
}

// indexByte returns the first position of c in s (forking on symbolic comparisons), or -1.
func (i *interpreter) indexByte(s []value, c value) int {
	for j, b := range s {
		eq := i.binop(token.EQL, nil, b, c)
		if i.branchVal(eq) {
			return j
		}
	}
	return -1
}

func (i *interpreter) indexSeq(s, sep []value) int {
	if len(sep) == 0 {
		return 0
	}
	for j := 0; j+len(sep) <= len(s); j++ {
		eq := i.strEq(sstr(s[j:j+len(sep)]), sstr(sep))
		if i.branch(eq) {
			return j
		}
	}
	return -1
}

func initBytesModels() {
	idxByte := func(fr *frame, args []value) value { return fr.i.indexByte(bytesOf(args[0]), args[1]) }
	externals["internal/bytealg.IndexByte"] = idxByte
	externals["internal/bytealg.IndexByteString"] = idxByte
	externals["bytes.IndexByte"] = idxByte
	externals["strings.IndexByte"] = idxByte
	externals["internal/bytealg.LastIndexByte"] = func(fr *frame, args []value) value {
		s := bytesOf(args[0])
		for j := len(s) - 1; j >= 0; j-- {
			if fr.i.branchVal(fr.i.binop(token.EQL, nil, s[j], args[1])) {
				return j
			}
		}
		return -1
	}
	externals["internal/bytealg.LastIndexByteString"] = externals["internal/bytealg.LastIndexByte"]
	count := func(fr *frame, args []value) value {
		n := 0
		for _, b := range bytesOf(args[0]) {
			if fr.i.branchVal(fr.i.binop(token.EQL, nil, b, args[1])) {
				n++
			}
		}
		return n
	}
	externals["internal/bytealg.Count"] = count
	externals["internal/bytealg.CountString"] = count
	externals["internal/bytealg.Equal"] = func(fr *frame, args []value) value {
		return mkval(fr.i.strEq(sstr(bytesOf(args[0])), sstr(bytesOf(args[1]))), types.Bool)
	}
	externals["bytes.Equal"] = externals["internal/bytealg.Equal"]
	cmp := func(fr *frame, args []value) value {
		i := fr.i
		lt, eq := i.strCmp(sstr(bytesOf(args[0])), sstr(bytesOf(args[1])))
		if i.branch(eq) {
			return 0
		}
		if i.branch(lt) {
			return -1
		}
		return 1
	}
	externals["internal/bytealg.Compare"] = cmp
	externals["internal/bytealg.CompareString"] = cmp
	externals["bytes.Compare"] = cmp
	index := func(fr *frame, args []value) value { return fr.i.indexSeq(bytesOf(args[0]), bytesOf(args[1])) }
	externals["internal/bytealg.Index"] = index
	externals["internal/bytealg.IndexString"] = index
	externals["bytes.Index"] = index
	externals["strings.Index"] = index
	// github.com/go-faster/xor: assembly kernels; element-wise model (works on symbolic bytes too)
	xorBytes := func(fr *frame, args []value) value {
		i := fr.i
		dst, a, b := i.asSlice(args[0]), i.asSlice(args[1]), i.asSlice(args[2])
		n := len(a)
		if len(b) < n {
			n = len(b)
		}
		if n == 0 {
			return 0
		}
		if len(dst) < n {
			panic(targetPanic{iface{t: types.Typ[types.String], v: "xor: dst too short"}})
		}
		for k := 0; k < n; k++ {
			dst[k] = i.binop(token.XOR, types.Typ[types.Uint8], a[k], b[k])
		}
		return n
	}
	externals["github.com/go-faster/xor.xorBytes"] = xorBytes
	externals["github.com/go-faster/xor.xorBytesSSE2"] = func(fr *frame, args []value) value {
		// (dst, a, b *byte, n int): pointer form — reached only through xorBytes, which is modelled
		panic(unsupported("xor.xorBytesSSE2 called directly"))
	}
	clone := func(fr *frame, args []value) value { return args[0] } // strings are immutable values here
	externals["internal/stringslite.Clone"] = clone
	externals["strings.Clone"] = clone
	externals["strconv.cloneString"] = clone
	externals["internal/bytealg.MakeNoZero"] = func(fr *frame, args []value) value {
		n := int(fr.i.concInt(args[0]))
		out := make([]value, n)
		for j := range out {
			out[j] = uint8(0)
		}
		fr.i.noteAlloc(n)
		return out
	}
	externals["internal/stringslite.Index"] = index
	externals["internal/stringslite.IndexByte"] = idxByte

	// strings.Builder: String() and copyCheck use unsafe.
	externals["(*strings.Builder).String"] = func(fr *frame, args []value) value {
		st := (*nonNil(args[0])).(structure)
		buf, _ := st[1].([]value)
		r := make(sstr, len(buf))
		copy(r, buf)
		return normStr(r)
	}
	externals["(*strings.Builder).copyCheck"] = func(fr *frame, args []value) value { return nil }
	externals["(*strings.Builder).grow"] = func(fr *frame, args []value) value {
		st := (*nonNil(args[0])).(structure)
		buf, _ := st[1].([]value)
		n := int(fr.i.concInt(args[1]))
		nb := make([]value, len(buf), 2*cap(buf)+n)
		copy(nb, buf)
		full := nb[:cap(nb)]
		for j := len(buf); j < len(full); j++ {
			full[j] = uint8(0)
		}
		st[1] = nb
		return nil
	}
	// unsafe-based helpers
	externals["unsafe.String"] = nil
	delete(externals, "unsafe.String")
}
