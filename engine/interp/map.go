package interp

// Insertion-ordered map supporting symbolic keys.

import (
	"go/types"

	"gosym/smt"
)

type omap struct {
	keyType types.Type
	keys    []value
	vals    []value
	index   map[value]int // fast path for concrete scalar / pointer keys
	symKeys int
}

func makeMap(kt types.Type) value {
	return &omap{keyType: kt, index: map[value]int{}}
}

func simpleKey(k value) bool {
	switch k.(type) {
	case bool, int, int8, int16, int32, int64, uint, uint8, uint16, uint32, uint64, uintptr,
		float32, float64, string, *value, *channel, complex64, complex128:
		return true
	}
	return false
}

func (m *omap) len() int {
	if m == nil {
		return 0
	}
	return len(m.keys)
}

// find returns the position of key k, or -1; may fork when symbolic values are involved.
func (i *interpreter) mapFind(m *omap, k value) int {
	if m == nil || len(m.keys) == 0 {
		return -1
	}
	if m.symKeys == 0 && simpleKey(k) {
		if p, ok := m.index[k]; ok {
			return p
		}
		return -1
	}
	if m.symKeys == 0 && !containsSym(k) {
		for j, kk := range m.keys {
			if equals(m.keyType, k, kk) {
				return j
			}
		}
		return -1
	}
	conds := make([]*smt.Term, 0, len(m.keys)+1)
	none := i.ctx.True()
	for _, kk := range m.keys {
		e := i.eqTerm(m.keyType, k, kk)
		if e.IsTrue() {
			conds = append(conds, e)
			none = i.ctx.False()
			// later ones cannot match (keys pairwise distinct)
			for len(conds) < len(m.keys) {
				conds = append(conds, i.ctx.False())
			}
			break
		}
		conds = append(conds, e)
		none = i.ctx.And(none, i.ctx.Not(e))
	}
	conds = append(conds, none)
	ch := i.decide(conds, 'b')
	if ch == len(m.keys) {
		return -1
	}
	return ch
}

func (i *interpreter) mapInsert(m *omap, k, v value) {
	if p := i.mapFind(m, k); p >= 0 {
		m.vals[p] = v
		return
	}
	m.keys = append(m.keys, k)
	m.vals = append(m.vals, v)
	if containsSym(k) {
		m.symKeys++
	} else if simpleKey(k) {
		m.index[k] = len(m.keys) - 1
	}
}

func (i *interpreter) mapDelete(m *omap, k value) {
	p := i.mapFind(m, k)
	if p < 0 {
		return
	}
	if containsSym(m.keys[p]) {
		m.symKeys--
	}
	m.keys = append(m.keys[:p:p], m.keys[p+1:]...)
	m.vals = append(m.vals[:p:p], m.vals[p+1:]...)
	m.index = map[value]int{}
	for j, kk := range m.keys {
		if simpleKey(kk) {
			m.index[kk] = j
		}
	}
}

// omapIter iterates over a snapshot of the keys (entries deleted meanwhile are skipped,
// entries added meanwhile are not visited: both allowed by the language).
type omapIter struct {
	i    *interpreter
	m    *omap
	keys []value
	pos  int
}

func (it *omapIter) next() tuple {
	for it.pos < len(it.keys) {
		k := it.keys[it.pos]
		it.pos++
		// still present? (identity on position is not stable; look the key up cheaply)
		for j, kk := range it.m.keys {
			if sameKey(k, kk) {
				return tuple{true, k, it.m.vals[j]}
			}
		}
	}
	return tuple{false, nil, nil}
}

// sameKey is identity of the stored key object (not semantic equality).
func sameKey(a, b value) bool {
	if simpleKey(a) && simpleKey(b) {
		return a == b
	}
	if sa, ok := a.(sv); ok {
		sb, ok := b.(sv)
		return ok && sa.t == sb.t
	}
	if !containsSym(a) && !containsSym(b) {
		defer func() { recover() }()
		return equalsAny(a, b)
	}
	return false
}

func equalsAny(a, b value) bool {
	switch a := a.(type) {
	case structure:
		b, ok := b.(structure)
		if !ok || len(a) != len(b) {
			return false
		}
		for j := range a {
			if !equalsAny(a[j], b[j]) {
				return false
			}
		}
		return true
	case array:
		b, ok := b.(array)
		if !ok || len(a) != len(b) {
			return false
		}
		for j := range a {
			if !equalsAny(a[j], b[j]) {
				return false
			}
		}
		return true
	case iface:
		b, ok := b.(iface)
		if !ok || !sameType(a.t, b.t) {
			return false
		}
		if a.t == nil {
			return true
		}
		return equalsAny(a.v, b.v)
	}
	if simpleKey(a) && simpleKey(b) {
		return a == b
	}
	return false
}
