package interp

// Per-path machine state: path condition, decisions, events, limits.

import (
	"fmt"
	"os"
	"go/types"
	"math/big"
	"sort"
	"strings"

	"golang.org/x/tools/go/ssa"

	"gosym/smt"
)

// Decision is one resolved choice point on a path.
type Decision struct {
	Choice int    `json:"c"`
	N      int    `json:"n"`
	Val    uint64 `json:"v,omitempty"` // concretisation value, when Kind == 'v'
	Kind   byte   `json:"k,omitempty"` // 'b' branch, 'v' concretise, 's' schedule, 'x' select
}

type pathAbort struct {
	kind string // "assume", "unsupported", "limit", "killed", "infeasible", "end"
	msg  string
}

func unsupported(msg string) pathAbort { return pathAbort{"unsupported", msg} }

// runtimeError is a Go run-time panic raised by the target program.
type runtimeError string

func (e runtimeError) Error() string { return "runtime error: " + string(e) }
func (e runtimeError) RuntimeError() {}

// Input is one Nondet value handed to the harness.
type Input struct {
	Name string
	T    *smt.Term
}

// Failure is a violated assertion / uncaught panic on this path with a model.
type Failure struct {
	ID      string            // assertion id or "panic"
	Msg     string            // panic text etc.
	Known   string            // finding id if every violation lies in a known class
	Model   map[string]string // input name -> hex value
	Path    []Decision
	Spur    bool
	Replay  string
	NativeOK bool
}

// PathResult summarises one completed path.
type PathResult struct {
	Prefix      []Decision
	Trail       []Decision
	Forks       [][]Decision
	Status      string // "ok", "assume", "unsupported", "limit", "infeasible", "panic"
	Msg         string
	Reached     []string
	Obligations int
	Discharged  int
	Unknown     int
	Failures    []Failure
	Steps       int
	Funcs       map[string]bool
	Witness     map[string]string // model of pc (if requested)
	Observed    []string          // Observe log, rendered under Witness
	Queries     int
	Assumptions []string
	Stubs       map[string]bool
	MaxAlloc    int
	ConcreteFails []string // concrete (conformance) mode: ids of failed asserts
	UsedUF      bool
}

// Config is shared, read-only configuration for all paths of a harness run.
type Config struct {
	Prog        *ssa.Program
	Harness     *ssa.Function
	MaxSteps    int
	MaxDecisions int
	TimeoutMS   int
	KnownClasses map[string]bool // finding ids that are listed as known
	WantWitness bool
	InitAllow   func(pkgPath string) bool
	Sizes       types.Sizes
	Trace       bool
	Fallback    func(c *smt.Ctx, asserts []*smt.Term, wantModel bool, syms []*smt.Term) (smt.Result, smt.Model)
	Concrete    map[string]string // if non-nil: concrete mode, inputs by name (hex); used for conformance
	Tier        int
	Seed        int
	FreeChoices []Decision // concrete mode: recorded free choices to replay (kinds s, x, c)
}

func (i *interpreter) addPC(t *smt.Term) {
	if t.IsTrue() {
		return
	}
	i.pc = append(i.pc, t)
	i.sess.Assert(t)
}

// check asks base ∧ extra.
func (i *interpreter) check(extra *smt.Term, wantModel bool) (smt.Result, smt.Model) {
	var syms []*smt.Term
	if wantModel {
		syms = i.inputSyms()
	}
	var ex []*smt.Term
	if extra != nil {
		if extra.IsFalse() {
			return smt.Unsat, nil
		}
		ex = []*smt.Term{extra}
	}
	i.res.Queries++
	r, m := i.sess.Check(ex, wantModel, syms)
	if r == smt.Unknown && i.cfg.Fallback != nil {
		all := append([]*smt.Term{}, i.pc...)
		all = append(all, ex...)
		r, m = i.cfg.Fallback(i.ctx, all, wantModel, syms)
		// the primary process may have been left in a bad state by a timeout: restart the session
		i.sess.Reset()
		for _, t := range i.pc {
			i.sess.Assert(t)
		}
	}
	return r, m
}

func (i *interpreter) inputSyms() []*smt.Term {
	var out []*smt.Term
	seen := map[string]bool{}
	for _, in := range i.inputs {
		m := map[string]*smt.Term{}
		smt.Symbols(in.T, m)
		names := make([]string, 0, len(m))
		for n := range m {
			names = append(names, n)
		}
		sort.Strings(names)
		for _, n := range names {
			if !seen[n] {
				seen[n] = true
				out = append(out, m[n])
			}
		}
	}
	return out
}

// decide resolves an n-way choice between mutually exclusive, jointly exhaustive conditions.
func (i *interpreter) decide(conds []*smt.Term, kind byte) int {
	// trivial cases
	live := -1
	nlive := 0
	for j, c := range conds {
		if !c.IsFalse() {
			live = j
			nlive++
		}
	}
	if nlive == 0 {
		panic(pathAbort{"infeasible", "no feasible alternative"})
	}
	if nlive == 1 && conds[live].IsTrue() {
		return live
	}
	d := len(i.trail)
	if d < len(i.prefix) {
		ch := i.prefix[d].Choice
		i.trail = append(i.trail, i.prefix[d])
		i.addPC(conds[ch])
		return ch
	}
	if len(i.trail) >= i.cfg.MaxDecisions {
		panic(pathAbort{"limit", fmt.Sprintf("more than %d decisions on one path", i.cfg.MaxDecisions)})
	}
	var feas []int
	for j, c := range conds {
		if c.IsFalse() {
			continue
		}
		// last alternative is feasible by exhaustion if none before was
		if j == len(conds)-1 && len(feas) == 0 {
			feas = append(feas, j)
			break
		}
		r, _ := i.check(c, false)
		if r == smt.Sat {
			feas = append(feas, j)
		} else if r == smt.Unknown {
			i.res.Unknown++
			feas = append(feas, j)
		}
	}
	if len(feas) == 0 {
		panic(pathAbort{"infeasible", "no feasible alternative"})
	}
	ch := feas[0]
	if len(feas) > 1 && os.Getenv("GOSYM_DECLOG") != "" && i.curFr != nil {
		w := i.curFr.where()
		if os.Getenv("GOSYM_DECLOG") != "2" {
			if k := strings.Index(w, "\n"); k > 0 {
				w = w[:k]
			}
		} else {
			w = strings.ReplaceAll(firstN(w, 5), "\n", " <- ")
		}
		fmt.Fprintf(os.Stderr, "fork(%c,%d) at %s\n", kind, len(feas), w)
	}
	for _, alt := range feas[1:] {
		p := make([]Decision, len(i.trail), len(i.trail)+1)
		copy(p, i.trail)
		p = append(p, Decision{Choice: alt, N: len(conds), Kind: kind})
		i.res.Forks = append(i.res.Forks, p)
	}
	i.trail = append(i.trail, Decision{Choice: ch, N: len(conds), Kind: kind})
	i.addPC(conds[ch])
	return ch
}

// branch decides a symbolic boolean.
func (i *interpreter) branch(c *smt.Term) bool {
	if c.IsConst() {
		return c.IsTrue()
	}
	return i.decide([]*smt.Term{c, i.ctx.Not(c)}, 'b') == 0
}

func (i *interpreter) branchVal(v value) bool {
	switch v := v.(type) {
	case bool:
		return v
	case sv:
		return i.branch(v.t)
	}
	panic(fmt.Sprintf("branch on %T", v))
}

// concretize picks a concrete value for t, forking over all feasible values.
func (i *interpreter) concretize(t *smt.Term) uint64 {
	for {
		if t.IsConst() {
			return t.Val
		}
		d := len(i.trail)
		var v uint64
		if d < len(i.prefix) {
			v = i.prefix[d].Val
		} else {
			// ask the solver for the value of t itself (t may contain uninterpreted functions)
			i.czCount++
			probe := i.ctx.Sym(fmt.Sprintf("cz!%d", i.czCount), t.W)
			i.res.Queries++
			r, m := i.sess.Check([]*smt.Term{i.ctx.Eq(probe, t)}, true, []*smt.Term{probe})
			if r != smt.Sat {
				if r == smt.Unknown {
					i.res.Unknown++
				}
				panic(pathAbort{"infeasible", "concretize: pc not sat"})
			}
			if pv, ok := m[probe.Name]; ok {
				v = pv.Uint64()
			}
		}
		eq := i.ctx.Eq(t, i.ctx.BV(v, t.W))
		// record Val on the decision we are about to take
		before := len(i.trail)
		nforks := len(i.res.Forks)
		ch := i.decide([]*smt.Term{eq, i.ctx.Not(eq)}, 'v')
		if len(i.trail) > before {
			i.trail[before].Val = v
		}
		for k := nforks; k < len(i.res.Forks); k++ {
			p := i.res.Forks[k]
			p[len(p)-1].Val = v
		}
		if ch == 0 {
			return v
		}
	}
}

// concInt turns an integer value into a concrete int64 (forking if symbolic).
func (i *interpreter) concInt(v value) int64 {
	if s, ok := v.(sv); ok {
		u := i.concretize(s.t)
		return asInt64(constOfKind(new(big.Int).SetUint64(u), s.k))
	}
	return asInt64(v)
}

// --- events --------------------------------------------------------------------

func hexModel(m smt.Model) map[string]string {
	out := map[string]string{}
	for k, v := range m {
		out[k] = "0x" + v.Text(16)
	}
	return out
}

// assert is the harness-level claim.
func (i *interpreter) assert(cond value, id string) {
	i.res.Obligations++
	switch c := cond.(type) {
	case bool:
		if c {
			i.res.Discharged++
			return
		}
		if i.cfg.Concrete != nil {
			// conformance mode: behave like the native Assert (log and continue)
			i.res.ConcreteFails = append(i.res.ConcreteFails, id)
			return
		}
		i.fail(id, "", nil)
		panic(pathAbort{"end", "assertion failed concretely: " + id})
	case sv:
		neg := i.ctx.Not(c.t)
		r, m := i.check(neg, true)
		switch r {
		case smt.Unsat:
			i.res.Discharged++
			i.addPC(c.t)
		case smt.Unknown:
			i.res.Unknown++
			i.addPC(c.t)
		case smt.Sat:
			i.failWith(id, "", neg, m)
			// continue on the side where the claim holds, if any
			if r2, _ := i.check(c.t, false); r2 == smt.Unsat {
				panic(pathAbort{"end", "claim false on whole path"})
			}
			i.addPC(c.t)
		}
	default:
		panic(fmt.Sprintf("assert on %T", cond))
	}
}

// fail records a failure for the current pc (concrete failure: every input on this path fails).
func (i *interpreter) fail(id, msg string, _ *smt.Term) {
	if i.cfg.Concrete != nil {
		i.res.ConcreteFails = append(i.res.ConcreteFails, id)
		return
	}
	r, m := i.check(nil, true)
	if r != smt.Sat {
		if r == smt.Unknown {
			i.res.Unknown++
		}
		return
	}
	i.failWith(id, msg, i.ctx.True(), m)
}

func (i *interpreter) failWith(id, msg string, neg *smt.Term, m smt.Model) {
	f := Failure{ID: id, Msg: msg, Model: hexModel(m), Path: append([]Decision{}, i.trail...)}
	// known-finding classes registered on this path
	var notClass *smt.Term
	var names []string
	for _, kc := range i.classes {
		if !i.cfg.KnownClasses[kc.id] {
			continue
		}
		names = append(names, kc.id)
		n := i.ctx.Not(kc.t)
		if notClass == nil {
			notClass = n
		} else {
			notClass = i.ctx.And(notClass, n)
		}
	}
	if notClass != nil {
		r, m2 := i.check(i.ctx.And(neg, notClass), true)
		switch r {
		case smt.Unsat:
			f.Known = strings.Join(names, ",")
		case smt.Sat:
			f.Model = hexModel(m2)
		default:
			i.res.Unknown++
		}
	}
	i.res.Failures = append(i.res.Failures, f)
}

type knownClass struct {
	id string
	t  *smt.Term
}

// nondet creates a fresh symbolic input (or reads it from the concrete map in conformance mode).
func (i *interpreter) nondet(name string, k types.BasicKind) value {
	n := i.nondetCount[name]
	i.nondetCount[name] = n + 1
	full := fmt.Sprintf("%s#%d", name, n)
	w := kindWidth(k)
	if i.cfg.Concrete != nil {
		b := new(big.Int)
		if s, ok := i.cfg.Concrete[full]; ok {
			b.SetString(strings.TrimPrefix(s, "0x"), 16)
		}
		return constOfKind(b, k)
	}
	t := i.ctx.Sym(full, w)
	i.inputs = append(i.inputs, Input{full, t})
	return sv{t, k}
}

func firstN(s string, n int) string {
	lines := strings.Split(s, "\n")
	if len(lines) > n {
		lines = lines[:n]
	}
	return strings.Join(lines, "\n")
}
