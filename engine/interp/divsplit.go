package interp

import (
	"fmt"

	"gosym/smt"
)

// splitDivConst: strength reduction for signed a / C and a % C with a large constant C, proved
// sound per use by the solver (bit-blasting back ends do not finish 64-bit division by 10^9; see
// DESIGN.md 3.4). Three forms, tried in this order:
//
//  1. a = ite(c, a1, a2): divide both arms and join with ite.
//  2. a = x*C + y syntactically (also under a low-bit mask, (x*C+y) &^ (2^k-1) with 2^k | C,
//     which equals x*C + (y &^ (2^k-1)) in modular arithmetic), and the path condition entails
//     0 <= x <= 2^62/C and 0 <= y < 2C: then a/C = x + (y >= C ? 1 : 0), a%C = y - (y >= C ? C : 0).
//  3. otherwise, if the path condition entails 0 <= a < 2^62: fresh q, r with the defining
//     constraint a = q*C + r, 0 <= r < C, 0 <= q <= 2^62/C added to the path condition (q, r are
//     uniquely determined by it, so nothing is assumed about the inputs).
func (i *interpreter) splitDivConst(a, b *smt.Term) (q, r *smt.Term, ok bool) {
	if !b.IsConst() || b.W != 64 || b.Big != nil || a.IsConst() {
		return nil, nil, false
	}
	C := b.Val
	if C < 1<<16 || C >= 1<<40 {
		return nil, nil, false
	}
	q, r, ok = i.floorSplit(a, C, true)
	if !ok {
		return nil, nil, false
	}
	// truncated division (Go) equals floor division unless a < 0 and the remainder is non-zero
	c := i.ctx
	if res, _ := i.check(c.Slt(q, c.BV(0, 64)), false); res != smt.Unsat {
		adj := c.And(c.Slt(q, c.BV(0, 64)), c.Not(c.Eq(r, c.BV(0, 64))))
		q = c.Ite(adj, c.Add(q, c.BV(1, 64)), q)
		r = c.Ite(adj, c.Sub(r, b), r)
	}
	// q*C, if the program forms it, is a - r (no multiplication for the solver)
	if i.mulBack == nil {
		i.mulBack = map[divKey]*smt.Term{}
	}
	i.mulBack[divKey{q.ID, C}] = c.Sub(a, r)
	return q, r, true
}

// smallSplit: a is proved to lie in [-5C, 5C): quotient and remainder by case split.
func (i *interpreter) smallSplit(a *smt.Term, C uint64) (q, r *smt.Term, ok bool) {
	c := i.ctx
	const k = 5
	lo := c.BV(uint64(-int64(k*C)), 64)
	hi := c.BV(k*C, 64)
	res, _ := i.check(c.Not(c.And(c.Sle(lo, a), c.Slt(a, hi))), false)
	if res != smt.Unsat {
		return nil, nil, false
	}
	q = c.BV(k-1, 64)
	r = c.Sub(a, c.BV((k-1)*C, 64))
	for j := int64(k) - 2; j >= -k; j-- {
		below := c.Slt(a, c.BV(uint64((j+1)*int64(C)), 64))
		q = c.Ite(below, c.BV(uint64(j), 64), q)
		r = c.Ite(below, c.Sub(a, c.BV(uint64(j*int64(C)), 64)), r)
	}
	i.res.Stubs["division of a value proved to lie in [-5C, 5C) by a large constant C done by case split on the quotient"] = true
	return q, r, true
}

type divKey struct {
	id int
	c  uint64
}

// floorSplit returns (q, r) with a = q*C + r, 0 <= r < C, |q| <= 2^62/C + 1 (no wrap-around), or
// ok=false. With allowFresh the general form 3 is available, otherwise only forms 1 and 2.
func (i *interpreter) floorSplit(a *smt.Term, C uint64, allowFresh bool) (q, r *smt.Term, ok bool) {
	if k, ok := i.divCache[divKey{a.ID, C}]; ok {
		return k[0], k[1], true
	}
	q, r, ok = i.floorSplit1(a, C, allowFresh, 0)
	if ok {
		if i.divCache == nil {
			i.divCache = map[divKey][2]*smt.Term{}
		}
		i.divCache[divKey{a.ID, C}] = [2]*smt.Term{q, r}
	}
	return
}

func floorDivMod(a, c int64) (int64, int64) {
	q, r := a/c, a%c
	if r < 0 {
		q--
		r += c
	}
	return q, r
}

func (i *interpreter) floorSplit1(a *smt.Term, C uint64, allowFresh bool, depth int) (q, r *smt.Term, ok bool) {
	c := i.ctx
	b := c.BV(C, 64)
	if a.IsConst() {
		if a.Big != nil {
			return nil, nil, false
		}
		av := int64(a.Val)
		if av <= -(1<<62) || av >= 1<<62 {
			return nil, nil, false
		}
		qq, rr := floorDivMod(av, int64(C))
		return c.BV(uint64(qq), 64), c.BV(uint64(rr), 64), true
	}
	if a.Op == smt.OIte && depth < 6 {
		q1, r1, ok1 := i.floorSplit1(a.Args[1], C, allowFresh, depth+1)
		if ok1 {
			q2, r2, ok2 := i.floorSplit1(a.Args[2], C, allowFresh, depth+1)
			if ok2 {
				return c.Ite(a.Args[0], q1, q2), c.Ite(a.Args[0], r1, r2), true
			}
		}
	}
	if q, r, ok = i.splitSyntactic(a, b, C); ok {
		return
	}
	if !allowFresh {
		return nil, nil, false
	}
	if q, r, ok = i.smallSplit(a, C); ok {
		return
	}
	// general form: fresh quotient / remainder
	lim := c.BV(uint64(1)<<62, 64)
	inRange := c.And(c.Slt(c.Neg(lim), a), c.Slt(a, lim))
	res, _ := i.check(c.Not(inRange), false)
	if res != smt.Unsat {
		return nil, nil, false
	}
	i.divCount++
	q = c.Sym(fmt.Sprintf("div!q%d", i.divCount), 64)
	r = c.Sym(fmt.Sprintf("div!r%d", i.divCount), 64)
	zero := c.BV(0, 64)
	qb := c.BV((uint64(1)<<62)/C+1, 64)
	i.addPC(c.And(c.And(c.Sle(c.Neg(qb), q), c.Sle(q, qb)), c.And(c.Sle(zero, r), c.Slt(r, b))))
	i.addPC(c.Eq(a, c.Add(c.Mul(q, b), r)))
	i.res.Stubs["division by constant replaced by fresh quotient/remainder with defining constraint a = q*C + r, 0 <= r < C (range |a| < 2^62 proved by the solver)"] = true
	return q, r, true
}

// mentionsMulConst finds a large constant C such that t is (an ite / low-bit mask / sum over)
// x*C + y syntactically.
func mentionsMulConst(t *smt.Term, depth int) (uint64, bool) {
	if depth > 8 || t.W != 64 {
		return 0, false
	}
	switch t.Op {
	case smt.OMul:
		for k := 0; k < 2; k++ {
			m := t.Args[k]
			if m.IsConst() && m.Big == nil && m.Val >= 1<<16 && m.Val < 1<<40 {
				return m.Val, true
			}
		}
	case smt.OAdd, smt.OSub:
		if C, ok := mentionsMulConst(t.Args[0], depth+1); ok {
			return C, true
		}
		if t.Op == smt.OAdd {
			return mentionsMulConst(t.Args[1], depth+1)
		}
	case smt.OIte:
		if C, ok := mentionsMulConst(t.Args[1], depth+1); ok {
			return C, true
		}
		return mentionsMulConst(t.Args[2], depth+1)
	case smt.OBAnd:
		for k := 0; k < 2; k++ {
			if t.Args[k].IsConst() {
				return mentionsMulConst(t.Args[1-k], depth+1)
			}
		}
	}
	return 0, false
}

// linCompare rewrites a signed 64-bit comparison of two values of the shape x*C + y into the
// lexicographic comparison of their (quotient, remainder) pairs, so that the query the solver
// sees contains no multiplication. ok=false: leave the comparison as it is.
// lt=true: a < b; lt=false: a == b.
func (i *interpreter) linCompare(a, b *smt.Term, lt bool) (*smt.Term, bool) {
	if a.W != 64 || (a.IsConst() && b.IsConst()) || i.cfg.Concrete != nil {
		return nil, false
	}
	C, ok := mentionsMulConst(a, 0)
	if !ok {
		if C, ok = mentionsMulConst(b, 0); !ok {
			return nil, false
		}
	}
	qa, ra, ok := i.floorSplit(a, C, false)
	if !ok {
		return nil, false
	}
	qb, rb, ok := i.floorSplit(b, C, false)
	if !ok {
		return nil, false
	}
	c := i.ctx
	if lt {
		return c.Or(c.Slt(qa, qb), c.And(c.Eq(qa, qb), c.Slt(ra, rb))), true
	}
	return c.And(c.Eq(qa, qb), c.Eq(ra, rb)), true
}

// linForm returns x (nil if none) and y with t = x*C + y in arithmetic modulo 2^64:
// sums and differences are flattened, and a low-bit mask over a sum, (x*C + y) &^ (2^k-1) with
// 2^k | C, is moved onto y.
func (i *interpreter) linForm(t *smt.Term, C uint64, depth int) (x, y *smt.Term) {
	c := i.ctx
	if depth > 16 {
		return nil, t
	}
	switch t.Op {
	case smt.OAdd:
		x1, y1 := i.linForm(t.Args[0], C, depth+1)
		x2, y2 := i.linForm(t.Args[1], C, depth+1)
		switch {
		case x1 != nil && x2 != nil:
			return c.Add(x1, x2), c.Add(y1, y2)
		case x1 != nil:
			return x1, c.Add(y1, y2)
		default:
			return x2, c.Add(y1, y2)
		}
	case smt.OSub:
		x1, y1 := i.linForm(t.Args[0], C, depth+1)
		x2, y2 := i.linForm(t.Args[1], C, depth+1)
		switch {
		case x1 != nil && x2 != nil:
			return c.Sub(x1, x2), c.Sub(y1, y2)
		case x2 != nil:
			return c.Neg(x2), c.Sub(y1, y2)
		default:
			return x1, c.Sub(y1, y2)
		}
	case smt.OMul:
		for k := 0; k < 2; k++ {
			m := t.Args[k]
			if m.IsConst() && m.Big == nil && m.Val == C {
				return t.Args[1-k], c.BV(0, 64)
			}
		}
	case smt.OBAnd:
		for k := 0; k < 2; k++ {
			m := t.Args[k]
			if m.IsConst() && m.Big == nil {
				low := ^m.Val // must be 2^k - 1
				if low&(low+1) == 0 && low < 1<<16 && C%(low+1) == 0 {
					x1, y1 := i.linForm(t.Args[1-k], C, depth+1)
					if x1 != nil {
						return x1, c.BAnd(y1, m)
					}
				}
				break
			}
		}
	}
	return nil, t
}

func (i *interpreter) splitSyntactic(a, b *smt.Term, C uint64) (q, r *smt.Term, ok bool) {
	c := i.ctx
	x, y := i.linForm(a, C, 0)
	if x == nil {
		return nil, nil, false
	}
	bound := c.BV((uint64(1)<<62)/C, 64)
	zero := c.BV(0, 64)
	cond := c.And(c.And(c.Sle(c.Neg(bound), x), c.Sle(x, bound)), c.And(c.Sle(c.Neg(b), y), c.Slt(y, c.BV(2*C, 64))))
	res, _ := i.check(c.Not(cond), false)
	if res != smt.Unsat {
		return nil, nil, false
	}
	i.res.Stubs["x*C+y with large constant C handled as (quotient, remainder) pair under a solver-proved range condition (division, remainder and comparisons)"] = true
	carry := c.Not(c.Slt(y, b))
	borrow := c.Slt(y, zero)
	q = c.Add(x, c.Ite(carry, c.BV(1, 64), c.Ite(borrow, c.BV(^uint64(0), 64), zero)))
	r = c.Ite(carry, c.Sub(y, b), c.Ite(borrow, c.Add(y, b), y))
	return q, r, true
}
