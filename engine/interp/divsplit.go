package interp

import (
	"gosym/smt"
)

// splitDivConst: strength reduction for signed a / C and a % C with a large constant C, proved
// sound per use by the solver: if a = x*C + y syntactically and the path condition entails
// 0 <= x <= 2^62/C and 0 <= y < 2C, then a/C = x + (y >= C ? 1 : 0) and a%C = y - (y >= C ? C : 0).
// (Bit-blasting back ends do not finish 64-bit division by 10^9; see DESIGN.md 3.4.)
func (i *interpreter) splitDivConst(a, b *smt.Term) (q, r *smt.Term, ok bool) {
	if !b.IsConst() || b.W != 64 || b.Big != nil || a.IsConst() {
		return nil, nil, false
	}
	C := b.Val
	if C < 1<<16 || C >= 1<<40 {
		return nil, nil, false
	}
	c := i.ctx
	var summands []*smt.Term
	var flat func(t *smt.Term)
	flat = func(t *smt.Term) {
		if t.Op == smt.OAdd {
			flat(t.Args[0])
			flat(t.Args[1])
			return
		}
		summands = append(summands, t)
	}
	flat(a)
	var x *smt.Term
	y := c.BV(0, 64)
	for _, s := range summands {
		if x == nil && s.Op == smt.OMul {
			if s.Args[0].IsConst() && s.Args[0].Big == nil && s.Args[0].Val == C {
				x = s.Args[1]
				continue
			}
			if s.Args[1].IsConst() && s.Args[1].Big == nil && s.Args[1].Val == C {
				x = s.Args[0]
				continue
			}
		}
		y = c.Add(y, s)
	}
	if x == nil {
		return nil, nil, false
	}
	bound := c.BV((uint64(1)<<62)/C, 64)
	zero := c.BV(0, 64)
	cond := c.And(c.And(c.Sle(zero, x), c.Sle(x, bound)), c.And(c.Sle(zero, y), c.Slt(y, c.BV(2*C, 64))))
	res, _ := i.check(c.Not(cond), false)
	if res != smt.Unsat {
		return nil, nil, false
	}
	i.res.Stubs["division by constant rewritten as quotient/remainder split under a solver-proved range condition"] = true
	carry := c.Not(c.Slt(y, b))
	q = c.Add(x, c.Ite(carry, c.BV(1, 64), zero))
	r = c.Ite(carry, c.Sub(y, b), y)
	return q, r, true
}
