package interp

// L2 models: hashes, AES-IGE, AES-CTR, HMAC as uninterpreted functions with their algebraic
// contracts (see DESIGN.md 3.5 and appendix E). Fully concrete inputs evaluate the real
// primitive; the concrete fact is also asserted about the UF so that symbolic and concrete
// applications stay consistent.

import (
	"math/big"
	"crypto/aes"
	"crypto/cipher"
	"crypto/hmac"
	"crypto/md5"
	"crypto/sha1"
	"crypto/sha256"
	"crypto/sha512"
	"fmt"
	"go/token"
	"go/types"
	gohash "hash"
	"hash/crc32"

	"github.com/gotd/ige"

	"gosym/smt"
)

var nativeObjType = types.NewNamed(types.NewTypeName(0, nil, "gosym.native", nil), types.NewStruct(nil, nil), nil)

func nativeIface(o nativeMethods) iface { return iface{t: nativeObjType, v: o} }

// bytesTerm concatenates byte values into one wide BV (first byte most significant).
func (i *interpreter) bytesTerm(bs []value) *smt.Term {
	if len(bs) == 0 {
		return nil
	}
	t := i.term(bs[0])
	for _, b := range bs[1:] {
		t = i.ctx.Concat(t, i.term(b))
	}
	return t
}

func allConcrete(bs []value) ([]byte, bool) {
	out := make([]byte, len(bs))
	for j, b := range bs {
		c, ok := b.(uint8)
		if !ok {
			return nil, false
		}
		out[j] = c
	}
	return out, true
}

func bytesToValues(b []byte) []value {
	out := make([]value, len(b))
	for j := range b {
		out[j] = b[j]
	}
	return out
}

// termBytes splits a wide BV into byte values.
func (i *interpreter) termBytes(t *smt.Term, n int) []value {
	out := make([]value, n)
	for j := 0; j < n; j++ {
		hi := (n-j)*8 - 1
		out[j] = mkval(i.ctx.Extract(t, hi, hi-7), types.Uint8)
	}
	return out
}

func (i *interpreter) constBytesTerm(b []byte) *smt.Term {
	return i.bytesTerm(bytesToValues(b))
}

type hashAlg struct {
	name string
	size int
	blk  int
	mk   func() gohash.Hash
}

var hashAlgs = map[string]hashAlg{
	"sha1":   {"sha1", 20, 64, sha1.New},
	"sha256": {"sha256", 32, 64, sha256.New},
	"sha512": {"sha512", 64, 128, sha512.New},
	"md5":    {"md5", 16, 64, md5.New},
}

// digest computes alg(data) as byte values.
func (i *interpreter) digest(alg hashAlg, prefix string, key []value, data []value) []value {
	i.res.Stubs["crypto:"+prefix+alg.name+" (uninterpreted function; real on concrete input)"] = true
	in := append(append([]value{}, key...), data...)
	name := fmt.Sprintf("%s%s_%d_%d", prefix, alg.name, len(key), len(data))
	cb, concrete := allConcrete(in)
	if concrete {
		var sum []byte
		if prefix == "hmac_" {
			h := hmac.New(alg.mk, cb[:len(key)])
			h.Write(cb[len(key):])
			sum = h.Sum(nil)
		} else {
			h := alg.mk()
			h.Write(cb)
			sum = h.Sum(nil)
		}
		if len(in) > 0 && i.ufUsed[name] {
			app := i.ctx.App(name, alg.size*8, i.bytesTerm(in))
			i.addPC(i.ctx.Eq(app, i.constBytesTerm(sum)))
		} else if len(in) > 0 && len(i.ufConcrete[name]) < 64 {
			i.ufConcrete[name] = append(i.ufConcrete[name], ufFact{in: in, out: sum})
		}
		return bytesToValues(sum)
	}
	var app *smt.Term
	if len(in) == 0 {
		app = i.ctx.App(name, alg.size*8)
	} else {
		app = i.ctx.App(name, alg.size*8, i.bytesTerm(in))
	}
	if !i.ufUsed[name] {
		i.ufUsed[name] = true
		// earlier concrete applications become facts about the UF
		for _, f := range i.ufConcrete[name] {
			capp := i.ctx.App(name, alg.size*8, i.bytesTerm(f.in))
			i.addPC(i.ctx.Eq(capp, i.constBytesTerm(f.out)))
		}
		delete(i.ufConcrete, name)
	}
	if i.collisionFree {
		i.injectivity(name, app)
	}
	return i.termBytes(app, alg.size)
}

type ufFact struct {
	in  []value
	out []byte
}

// injectivity adds, for the collision-free idealisation, out(a)=out(b) => a=b against all
// earlier applications of hash UFs of the same family (same name: same lengths), and
// out(a) != out(b) across different input lengths of the same algorithm.
func (i *interpreter) injectivity(name string, app *smt.Term) {
	for _, old := range i.ufApps {
		if old.t == app {
			continue
		}
		// the MTProto msg_key truncations are idealised as collision-free too:
		// SHA-256 bytes 8..24 (v2), SHA-1 bytes 4..20 (v1)
		win := func(t *smt.Term) *smt.Term {
			switch t.W {
			case 256:
				return i.ctx.Extract(t, 191, 64)
			case 160:
				return i.ctx.Extract(t, 127, 0)
			}
			return t
		}
		if old.name == name {
			if len(app.Args) == 1 && len(old.t.Args) == 1 {
				i.addPC(i.ctx.Implies(i.ctx.Eq(win(app), win(old.t)), i.ctx.Eq(app.Args[0], old.t.Args[0])))
			}
		} else if old.t.W == app.W && sameAlg(old.name, name) {
			i.addPC(i.ctx.Not(i.ctx.Eq(win(app), win(old.t))))
		}
	}
	i.ufApps = append(i.ufApps, ufApp{name, app})
}

func sameAlg(a, b string) bool {
	cut := func(s string) string {
		for k := 0; k < len(s); k++ {
			if s[k] >= '0' && s[k] <= '9' && k > 0 && s[k-1] == '_' {
				return s[:k]
			}
		}
		return s
	}
	return cut(a) == cut(b)
}

type ufApp struct {
	name string
	t    *smt.Term
}

// --- hash objects -----------------------------------------------------------------------

type hashObj struct {
	alg    hashAlg
	prefix string
	key    []value
	data   []value
}

func (h *hashObj) callMethod(i *interpreter, name string, args []value) value {
	switch name {
	case "Write":
		p := args[0].([]value)
		h.data = append(h.data, p...)
		return tuple{len(p), iface{}}
	case "Sum":
		b, _ := args[0].([]value)
		d := i.digest(h.alg, h.prefix, h.key, h.data)
		// Go's append semantics (in place when capacity allows) carry over to []value.
		return append(b, d...)
	case "Reset":
		h.data = nil
		return nil
	case "Size":
		return h.alg.size
	case "BlockSize":
		return h.alg.blk
	}
	panic(unsupported("hash method " + name))
}

// --- block cipher objects -----------------------------------------------------------------

type blockObj struct {
	key []value
}

func (b *blockObj) callMethod(i *interpreter, name string, args []value) value {
	switch name {
	case "BlockSize":
		return 16
	case "Encrypt", "Decrypt":
		dst, src := args[0].([]value), args[1].([]value)
		if len(src) < 16 || len(dst) < 16 {
			panic(targetPanic{iface{t: types.Typ[types.String], v: "crypto/aes: input not full block"}})
		}
		out := i.aesBlock(b.key, src[:16], name == "Encrypt")
		copy(dst[:16], out)
		return nil
	}
	panic(unsupported("cipher.Block method " + name))
}

func (i *interpreter) aesBlock(key, in []value, enc bool) []value {
	i.res.Stubs["crypto:aes block (uninterpreted permutation pair; real on concrete input)"] = true
	all := append(append([]value{}, key...), in...)
	if cb, ok := allConcrete(all); ok {
		blk, err := aes.NewCipher(cb[:len(key)])
		if err != nil {
			panic(unsupported("aes key size"))
		}
		out := make([]byte, 16)
		if enc {
			blk.Encrypt(out, cb[len(key):])
		} else {
			blk.Decrypt(out, cb[len(key):])
		}
		return bytesToValues(out)
	}
	c := i.ctx
	k, x := i.bytesTerm(key), i.bytesTerm(in)
	en := fmt.Sprintf("aes_enc_%d", len(key))
	dn := fmt.Sprintf("aes_dec_%d", len(key))
	if enc {
		app := c.App(en, 128, k, x)
		i.addPC(c.Eq(c.App(dn, 128, k, app), x))
		return i.termBytes(app, 16)
	}
	app := c.App(dn, 128, k, x)
	i.addPC(c.Eq(c.App(en, 128, k, app), x))
	return i.termBytes(app, 16)
}

// igeCrypt models AES-IGE over whole buffers as a keyed bijection.
func (i *interpreter) igeCrypt(key, iv, dst, src []value, enc bool) {
	i.res.Stubs["crypto:aes-ige (uninterpreted keyed bijection with D(E(x))=x and E(D(c))=c; real on concrete input)"] = true
	n := len(src)
	if n%16 != 0 {
		panic(targetPanic{iface{t: types.Typ[types.String], v: "src not full blocks"}})
	}
	if len(dst) < n {
		panic(targetPanic{iface{t: types.Typ[types.String], v: "dst too short"}})
	}
	if n == 0 {
		return
	}
	all := append(append(append([]value{}, key...), iv...), src...)
	if cb, ok := allConcrete(all); ok {
		blk, err := aes.NewCipher(cb[:len(key)])
		if err != nil {
			panic(unsupported("aes key size"))
		}
		out := make([]byte, n)
		civ := cb[len(key) : len(key)+len(iv)]
		if enc {
			ige.EncryptBlocks(blk, civ, out, cb[len(key)+len(iv):])
		} else {
			ige.DecryptBlocks(blk, civ, out, cb[len(key)+len(iv):])
		}
		copy(dst, bytesToValues(out))
		return
	}
	c := i.ctx
	k, v, x := i.bytesTerm(key), i.bytesTerm(iv), i.bytesTerm(src)
	en := fmt.Sprintf("ige_enc_%d_%d", len(key), n)
	dn := fmt.Sprintf("ige_dec_%d_%d", len(key), n)
	var app *smt.Term
	if enc {
		app = c.App(en, n*8, k, v, x)
		i.addPC(c.Eq(c.App(dn, n*8, k, v, app), x))
	} else {
		app = c.App(dn, n*8, k, v, x)
		i.addPC(c.Eq(c.App(en, n*8, k, v, app), x))
	}
	copy(dst, i.termBytes(app, n))
}

// --- CTR stream -----------------------------------------------------------------------------

type ctrObj struct {
	key []value
	iv  []value
	pos int // bytes consumed
	ks  []value
}

func (s *ctrObj) callMethod(i *interpreter, name string, args []value) value {
	if name != "XORKeyStream" {
		panic(unsupported("cipher.Stream method " + name))
	}
	dst, src := args[0].([]value), args[1].([]value)
	if len(dst) < len(src) {
		panic(targetPanic{iface{t: types.Typ[types.String], v: "crypto/cipher: output smaller than input"}})
	}
	for j := range src {
		kb := i.ctrByte(s)
		dst[j] = i.binop(token.XOR, nil, src[j], kb)
	}
	return nil
}

func (i *interpreter) ctrByte(s *ctrObj) value {
	blk := s.pos / 16
	off := s.pos % 16
	s.pos++
	for len(s.ks) <= blk*16+off {
		b := len(s.ks) / 16
		s.ks = append(s.ks, i.ctrBlock(s.key, s.iv, b)...)
	}
	return s.ks[blk*16+off]
}

func (i *interpreter) ctrBlock(key, iv []value, idx int) []value {
	i.res.Stubs["crypto:aes-ctr (keystream = uninterpreted function of key, iv, block index; real on concrete input)"] = true
	all := append(append([]value{}, key...), iv...)
	if cb, ok := allConcrete(all); ok {
		blk, err := aes.NewCipher(cb[:len(key)])
		if err != nil {
			panic(unsupported("aes key size"))
		}
		st := cipher.NewCTR(blk, cb[len(key):])
		buf := make([]byte, (idx+1)*16)
		st.XORKeyStream(buf, buf)
		return bytesToValues(buf[idx*16:])
	}
	c := i.ctx
	// counter block = iv + idx (big-endian 128-bit add), then one AES encryption: keep the
	// addition interpreted so that offsets into the stream relate correctly.
	ivt := i.bytesTerm(iv)
	ctr := c.Add(ivt, c.BV(uint64(idx), 128))
	return i.aesBlock(key, i.termBytes(ctr, 16), true)
}

func initCryptoModels() {
	for n, alg := range hashAlgs {
		alg := alg
		externals["crypto/"+n+".New"] = func(fr *frame, args []value) value {
			return nativeIface(&hashObj{alg: alg})
		}
	}
	externals["crypto/sha256.Sum256"] = func(fr *frame, args []value) value {
		return array(fr.i.digest(hashAlgs["sha256"], "", nil, args[0].([]value)))
	}
	externals["crypto/sha1.Sum"] = func(fr *frame, args []value) value {
		return array(fr.i.digest(hashAlgs["sha1"], "", nil, args[0].([]value)))
	}
	externals["crypto/md5.Sum"] = func(fr *frame, args []value) value {
		return array(fr.i.digest(hashAlgs["md5"], "", nil, args[0].([]value)))
	}
	externals["crypto/sha512.Sum512"] = func(fr *frame, args []value) value {
		return array(fr.i.digest(hashAlgs["sha512"], "", nil, args[0].([]value)))
	}
	externals["crypto/hmac.New"] = func(fr *frame, args []value) value {
		inner := call(fr.i, fr, 0, args[0], nil)
		ho, ok := inner.(iface).v.(*hashObj)
		if !ok {
			panic(unsupported("hmac.New over unknown hash"))
		}
		key := append([]value{}, args[1].([]value)...)
		return nativeIface(&hashObj{alg: ho.alg, prefix: "hmac_", key: key})
	}
	externals["crypto/hmac.Equal"] = func(fr *frame, args []value) value {
		return mkval(fr.i.strEq(sstr(args[0].([]value)), sstr(args[1].([]value))), types.Bool)
	}
	externals["crypto/subtle.ConstantTimeCompare"] = func(fr *frame, args []value) value {
		i := fr.i
		eq := i.strEq(sstr(args[0].([]value)), sstr(args[1].([]value)))
		return mkval(i.ctx.Ite(eq, i.ctx.BV(1, 64), i.ctx.BV(0, 64)), types.Int)
	}
	externals["hash/crc32.ChecksumIEEE"] = func(fr *frame, args []value) value {
		i := fr.i
		data := args[0].([]value)
		if cb, ok := allConcrete(data); ok {
			return crc32.ChecksumIEEE(cb)
		}
		i.res.Stubs["hash/crc32.ChecksumIEEE (uninterpreted function; real on concrete input)"] = true
		app := i.ctx.App(fmt.Sprintf("crc32_%d", len(data)), 32, i.bytesTerm(data))
		return mkval(app, types.Uint32)
	}
	externals["crypto/aes.NewCipher"] = func(fr *frame, args []value) value {
		key := args[0].([]value)
		switch len(key) {
		case 16, 24, 32:
		default:
			return tuple{iface{}, fr.i.stdErrorsNew("crypto/aes: invalid key size")}
		}
		return tuple{nativeIface(&blockObj{key: append([]value{}, key...)}), iface{}}
	}
	blockKey := func(v value) []value {
		b, ok := v.(iface).v.(*blockObj)
		if !ok {
			panic(unsupported("IGE over a non-AES block"))
		}
		return b.key
	}
	externals["github.com/gotd/ige.EncryptBlocks"] = func(fr *frame, args []value) value {
		fr.i.igeCrypt(blockKey(args[0]), args[1].([]value), args[2].([]value), args[3].([]value), true)
		return nil
	}
	externals["github.com/gotd/ige.DecryptBlocks"] = func(fr *frame, args []value) value {
		fr.i.igeCrypt(blockKey(args[0]), args[1].([]value), args[2].([]value), args[3].([]value), false)
		return nil
	}
	externals["github.com/gotd/ige.DecryptAES256Blocks"] = func(fr *frame, args []value) value {
		fr.i.igeCrypt(args[0].([]value), args[1].([]value), args[2].([]value), args[3].([]value), false)
		return nil
	}
	externals["crypto/cipher.NewCTR"] = func(fr *frame, args []value) value {
		key := blockKey(args[0])
		iv := append([]value{}, args[1].([]value)...)
		if len(iv) != 16 {
			panic(targetPanic{iface{t: types.Typ[types.String], v: "cipher.NewCTR: IV length must equal block size"}})
		}
		return nativeIface(&ctrObj{key: key, iv: iv})
	}
	externals[rtPath+".CollisionFree"] = func(fr *frame, args []value) value {
		fr.i.collisionFree = true
		fr.i.res.Stubs["idealisation: hash functions collision-free (distinct inputs give distinct digests)"] = true
		return nil
	}
}

// RSA leaf functions of the repository (crypto/rsa.go) on symbolic data: an uninterpreted pair
// rsa_enc / rsa_dec over 2048-bit values with dec(enc(x)) = x and enc(dec(c)) = c (one key per
// harness). Concrete data is interpreted normally (big.Int.Exp runs natively).
func init() {
	symbolicBytes := func(v value) bool {
		sl, ok := v.([]value)
		if !ok {
			return false
		}
		for _, e := range sl {
			if _, ok := e.(sv); ok {
				return true
			}
		}
		return false
	}
	pad256 := func(i *interpreter, data []value) *smt.Term {
		t := i.bytesTerm(data)
		if t.W < 2048 {
			t = i.ctx.ZExt(t, 2048)
		}
		return t
	}
	externals["github.com/gotd/td/crypto.rsaEncrypt"] = func(fr *frame, args []value) value {
		i := fr.i
		if !symbolicBytes(args[0]) {
			return callSSARaw(i, fr, "github.com/gotd/td/crypto.rsaEncrypt", args)
		}
		i.res.Stubs["crypto:rsa (uninterpreted pair with dec(enc(x))=x; real on concrete input)"] = true
		c := i.ctx
		x := pad256(i, args[0].([]value))
		app := c.App("rsa_enc", 2048, x)
		i.addPC(c.Eq(c.App("rsa_dec", 2048, app), x))
		return i.termBytes(app, 256)
	}
	externals["github.com/gotd/td/crypto.rsaDecrypt"] = func(fr *frame, args []value) value {
		i := fr.i
		if !symbolicBytes(args[0]) {
			return callSSARaw(i, fr, "github.com/gotd/td/crypto.rsaDecrypt", args)
		}
		i.res.Stubs["crypto:rsa (uninterpreted pair with dec(enc(x))=x; real on concrete input)"] = true
		c := i.ctx
		x := pad256(i, args[0].([]value))
		app := c.App("rsa_dec", 2048, x)
		i.addPC(c.Eq(c.App("rsa_enc", 2048, app), x))
		to := args[2].([]value)
		out := i.termBytes(app, 256)
		if len(to) < 256 {
			// FillBytes reports false when the value does not fit; with a 2048-bit value in a
			// shorter buffer the top bytes would have to be zero: decided by the solver
			top := i.bytesTerm(out[:256-len(to)])
			var zero *smt.Term
			if top.W <= 64 {
				zero = c.BV(0, top.W)
			} else {
				zero = c.BigBV(new(big.Int), top.W)
			}
			if !i.branch(c.Eq(top, zero)) {
				return false
			}
			copy(to, out[256-len(to):])
			return true
		}
		for k := range to {
			to[k] = uint8(0)
		}
		copy(to[len(to)-256:], out)
		return true
	}
}
