package interp // import "golang.org/x/tools/go/ssa/interp"

import (
	"fmt"
	"go/token"
	"go/types"
	"log"
	"os"
	"runtime"
	"runtime/debug"
	"slices"
	"strings"

	"golang.org/x/tools/go/ssa"

	"gosym/smt"
)

type continuation int

const (
	kNext continuation = iota
	kReturn
	kJump
)

// Mode is a bitmask of options affecting the interpreter.
type Mode uint

const (
	DisableRecover Mode = 1 << iota // Disable recover() in target programs; show interpreter crash instead.
	EnableTracing                   // Print a trace of all instructions as they are interpreted.
)

type methodSet map[string]*ssa.Function

// State shared between all interpreted goroutines.
type interpreter struct {
	prog               *ssa.Program           // the SSA program
	globals            map[*ssa.Global]*value // addresses of global variables (lazily created)
	mode               Mode                   // interpreter options
	runtimeErrorString types.Type             // the runtime.errorString type (iff "runtime" is present)
	sizes              types.Sizes            // the effective type-sizing function

	cfg         *Config
	ctx         *smt.Ctx
	sess        *smt.Session
	prefix      []Decision
	trail       []Decision
	pc          []*smt.Term
	inputs      []Input
	nondetCount map[string]int
	classes     []knownClass
	res         *PathResult
	steps       int
	inited      map[*ssa.Package]bool
	sch         *sched
	killed      bool
	abortReason *pathAbort
	settleWaiter *goroutine
	side        map[*value]any // side state keyed by address: mutexes, wait groups, timers, hashes...
	sideAny     map[any]any
	observed    []obs
	hooks       map[string]value // harness-registered callbacks
	lastPanic   string
	panicTrace  string
	runningInit map[*ssa.Package]bool
	allocLimit  int64
	fmtDepth    int
	ufUsed      map[string]bool
	ufConcrete  map[string][]ufFact
	ufApps      []ufApp
	collisionFree bool
	czCount     int
	divCount    int
	freeIdx     int
	gzipCount   int
	skipExt     *ssa.Function
	curFr       *frame
	divCache    map[divKey][2]*smt.Term
	mulBack     map[divKey]*smt.Term
	opaqueAlloc bool
}

type deferred struct {
	fn    value
	args  []value
	instr *ssa.Defer
	tail  *deferred
}

type frame struct {
	i                *interpreter
	caller           *frame
	fn               *ssa.Function
	block, prevBlock *ssa.BasicBlock
	env              map[ssa.Value]value // dynamic values of SSA variables
	locals           []value
	defers           *deferred
	result           value
	panicking        bool
	panic            any
	phitemps         []value // temporaries for parallel phi assignment
	cur              ssa.Instruction
}

func (fr *frame) get(key ssa.Value) value {
	switch key := key.(type) {
	case nil:
		// Hack; simplifies handling of optional attributes
		// such as ssa.Slice.{Low,High}.
		return nil
	case *ssa.Function, *ssa.Builtin:
		return key
	case *ssa.Const:
		return constValue(key)
	case *ssa.Global:
		return fr.i.global(key)
	}
	if r, ok := fr.env[key]; ok {
		return r
	}
	panic(fmt.Sprintf("get: no value for %T: %v", key, key.Name()))
}

// runDefer runs a deferred call d.
// It always returns normally, but may set or clear fr.panic.
func (fr *frame) runDefer(d *deferred) {
	if fr.i.mode&EnableTracing != 0 {
		fmt.Fprintf(os.Stderr, "%s: invoking deferred function call\n",
			fr.i.prog.Fset.Position(d.instr.Pos()))
	}
	var ok bool
	defer func() {
		if !ok {
			// Deferred call created a new state of panic.
			fr.panicking = true
			fr.panic = recover()
		}
	}()
	call(fr.i, fr, d.instr.Pos(), d.fn, d.args)
	ok = true
}

// runDefers executes fr's deferred function calls in LIFO order.
//
// On entry, fr.panicking indicates a state of panic; if
// true, fr.panic contains the panic value.
//
// On completion, if a deferred call started a panic, or if no
// deferred call recovered from a previous state of panic, then
// runDefers itself panics after the last deferred call has run.
//
// If there was no initial state of panic, or it was recovered from,
// runDefers returns normally.
func (fr *frame) runDefers() {
	for d := fr.defers; d != nil; d = d.tail {
		fr.runDefer(d)
	}
	fr.defers = nil
	if fr.panicking {
		panic(fr.panic) // new panic, or still panicking
	}
}

// lookupMethod returns the method set for type typ, which may be one
// of the interpreter's fake types.
func lookupMethod(i *interpreter, typ types.Type, meth *types.Func) *ssa.Function {
	return i.prog.LookupMethod(typ, meth.Pkg(), meth.Name())
}

// visitInstr interprets a single ssa.Instruction within the activation
// record frame.  It returns a continuation value indicating where to
// read the next instruction from.
func visitInstr(fr *frame, instr ssa.Instruction) continuation {
	switch instr := instr.(type) {
	case *ssa.DebugRef:
		// no-op

	case *ssa.UnOp:
		fr.env[instr] = fr.i.unop(fr, instr, fr.get(instr.X))

	case *ssa.BinOp:
		fr.env[instr] = fr.i.binop(instr.Op, instr.X.Type(), fr.get(instr.X), fr.get(instr.Y))

	case *ssa.Call:
		fn, args := prepareCall(fr, &instr.Call)
		fr.env[instr] = call(fr.i, fr, instr.Pos(), fn, args)

	case *ssa.ChangeInterface:
		fr.env[instr] = fr.get(instr.X)

	case *ssa.ChangeType:
		fr.env[instr] = fr.get(instr.X) // (can't fail)

	case *ssa.Convert:
		fr.env[instr] = fr.i.conv(instr.Type(), instr.X.Type(), fr.get(instr.X))

	case *ssa.SliceToArrayPointer:
		fr.env[instr] = sliceToArrayPointer(instr.Type(), instr.X.Type(), fr.get(instr.X))

	case *ssa.MakeInterface:
		fr.env[instr] = iface{t: instr.X.Type(), v: fr.get(instr.X)}

	case *ssa.Extract:
		fr.env[instr] = fr.get(instr.Tuple).(tuple)[instr.Index]

	case *ssa.Slice:
		fr.env[instr] = fr.i.slice(fr.get(instr.X), fr.get(instr.Low), fr.get(instr.High), fr.get(instr.Max))

	case *ssa.Return:
		switch len(instr.Results) {
		case 0:
		case 1:
			fr.result = fr.get(instr.Results[0])
		default:
			var res []value
			for _, r := range instr.Results {
				res = append(res, fr.lateLoad(instr, r))
			}
			fr.result = tuple(res)
		}
		fr.block = nil
		return kReturn

	case *ssa.RunDefers:
		fr.runDefers()

	case *ssa.Panic:
		panic(targetPanic{fr.get(instr.X)})

	case *ssa.Send:
		fr.i.chanSend(fr.get(instr.Chan), fr.get(instr.X))

	case *ssa.Store:
		fr.i.storeTo(mustDeref(instr.Addr.Type()), fr.get(instr.Addr), fr.get(instr.Val))

	case *ssa.If:
		succ := 1
		if fr.i.branchVal(fr.get(instr.Cond)) {
			succ = 0
		}
		fr.prevBlock, fr.block = fr.block, fr.block.Succs[succ]
		return kJump

	case *ssa.Jump:
		fr.prevBlock, fr.block = fr.block, fr.block.Succs[0]
		return kJump

	case *ssa.Defer:
		fn, args := prepareCall(fr, &instr.Call)
		defers := &fr.defers
		if into := fr.get(instr.DeferStack); into != nil {
			defers = into.(**deferred)
		}
		*defers = &deferred{
			fn:    fn,
			args:  args,
			instr: instr,
			tail:  *defers,
		}

	case *ssa.Go:
		fn, args := prepareCall(fr, &instr.Call)
		fr.i.spawn(instr.Pos(), fn, args)
		fr.i.yield()

	case *ssa.MakeChan:
		fr.env[instr] = fr.i.makeChan(instr.Type().Underlying().(*types.Chan).Elem(), int(fr.i.concInt(fr.get(instr.Size))))

	case *ssa.Alloc:
		var addr *value
		if instr.Heap {
			// new
			addr = new(value)
			fr.env[instr] = addr
		} else {
			// local
			addr = fr.env[instr].(*value)
		}
		*addr = zero(mustDeref(instr.Type()))

	case *ssa.MakeSlice:
		fr.env[instr] = fr.i.makeSlice(instr, fr.get(instr.Len), fr.get(instr.Cap))

	case *ssa.MakeMap:
		if instr.Reserve != nil {
			fr.i.concInt(fr.get(instr.Reserve))
		}
		fr.env[instr] = makeMap(instr.Type().Underlying().(*types.Map).Key())

	case *ssa.Range:
		fr.env[instr] = fr.i.rangeIter(fr.get(instr.X))

	case *ssa.Next:
		fr.env[instr] = fr.get(instr.Iter).(iter).next()

	case *ssa.FieldAddr:
		p := fr.get(instr.X).(*value)
		if p == nil {
			panic(runtimeError("invalid memory address or nil pointer dereference"))
		}
		fr.env[instr] = &(*p).(structure)[instr.Field]

	case *ssa.Field:
		fr.env[instr] = fr.get(instr.X).(structure)[instr.Field]

	case *ssa.IndexAddr:
		fr.env[instr] = fr.i.indexAddr(instr, fr.get(instr.X), fr.get(instr.Index))

	case *ssa.Index:
		fr.env[instr] = fr.i.index(fr.get(instr.X), fr.get(instr.Index))

	case *ssa.Lookup:
		fr.env[instr] = fr.i.lookup(instr, fr.get(instr.X), fr.get(instr.Index))

	case *ssa.MapUpdate:
		m, _ := fr.get(instr.Map).(*omap)
		if m == nil {
			panic(runtimeError("assignment to entry in nil map"))
		}
		fr.i.mapInsert(m, fr.get(instr.Key), fr.get(instr.Value))

	case *ssa.TypeAssert:
		fr.env[instr] = typeAssert(instr, fr.get(instr.X).(iface))

	case *ssa.MakeClosure:
		var bindings []value
		for _, binding := range instr.Bindings {
			bindings = append(bindings, fr.get(binding))
		}
		fr.env[instr] = &closure{instr.Fn.(*ssa.Function), bindings}

	case *ssa.Phi:
		log.Fatal("unreachable") // phis are processed at block entry

	case *ssa.Select:
		fr.env[instr] = fr.i.doSelect(fr, instr)

	default:
		panic(fmt.Sprintf("unexpected instruction: %T", instr))
	}

	// if val, ok := instr.(ssa.Value); ok {
	// 	fmt.Println(toString(fr.env[val])) // debugging
	// }

	return kNext
}

// prepareCall determines the function value and argument values for a
// function call in a Call, Go or Defer instruction, performing
// interface method lookup if needed.
func prepareCall(fr *frame, call *ssa.CallCommon) (fn value, args []value) {
	v := fr.get(call.Value)
	if call.Method == nil {
		// Function call.
		fn = v
	} else {
		// Interface method invocation.
		recv := v.(iface)
		if recv.t == nil {
			panic(runtimeError("invalid memory address or nil pointer dereference (method on nil interface)"))
		}
		if nm, ok := recv.v.(nativeMethods); ok {
			fn = &nativeFn{name: call.Method.Name(), recv: nm}
		} else if f := lookupMethod(fr.i, recv.t, call.Method); f == nil {
			// Unreachable in well-typed programs.
			panic(fmt.Sprintf("method set for dynamic type %v does not contain %s", recv.t, call.Method))
		} else {
			fn = f
		}
		args = append(args, recv.v)
	}
	for _, arg := range call.Args {
		args = append(args, fr.get(arg))
	}
	return
}

// call interprets a call to a function (function, builtin or closure)
// fn with arguments args, returning its result.
// callpos is the position of the callsite.
func call(i *interpreter, caller *frame, callpos token.Pos, fn value, args []value) value {
	switch fn := fn.(type) {
	case *ssa.Function:
		if fn == nil {
			panic(runtimeError("invalid memory address or nil pointer dereference (nil func)"))
		}
		return callSSA(i, caller, callpos, fn, args, nil)
	case *closure:
		return callSSA(i, caller, callpos, fn.Fn, args, fn.Env)
	case *ssa.Builtin:
		return callBuiltin(i, caller, fn, args)
	case *nativeFn:
		for k, a := range args {
			if o, ok := a.(*oslice); ok {
				args[k] = i.materialize(o)
			}
		}
		return fn.recv.callMethod(i, fn.name, args[1:])
	case goFunc:
		return fn(i, args)
	}
	panic(fmt.Sprintf("cannot call %T", fn))
}

func loc(fset *token.FileSet, pos token.Pos) string {
	if pos == token.NoPos {
		return ""
	}
	return " at " + fset.Position(pos).String()
}

// callSSA interprets a call to function fn with arguments args,
// and lexical environment env, returning its result.
// callpos is the position of the callsite.
func callSSA(i *interpreter, caller *frame, callpos token.Pos, fn *ssa.Function, args []value, env []value) value {
	if i.mode&EnableTracing != 0 {
		fset := fn.Prog.Fset
		// TODO(adonovan): fix: loc() lies for external functions.
		fmt.Fprintf(os.Stderr, "Entering %s%s.\n", fn, loc(fset, fn.Pos()))
		suffix := ""
		if caller != nil {
			suffix = ", resuming " + caller.fn.String() + loc(fset, callpos)
		}
		defer fmt.Fprintf(os.Stderr, "Leaving %s%s.\n", fn, suffix)
	}
	fr := &frame{
		i:      i,
		caller: caller, // for panic/recover
		fn:     fn,
	}
	if fn.Parent() == nil {
		if fn.Synthetic == "package initializer" && !i.runningInit[fn.Pkg] {
			// Imports are initialised lazily, on first use of one of their functions or
			// globals, not eagerly from the importer's initialiser.
			return nil
		}
		if p := fnPkg(fn); p != nil {
			i.ensureInit(p)
		}
		if ext := i.lookupExternal(fn); ext != nil {
			for k, a := range args {
				if o, ok := a.(*oslice); ok {
					args[k] = i.materialize(o)
				}
			}
			return ext(fr, args)
		}
		if fn.Blocks == nil {
			panic(unsupported("no code for function: " + fn.String()))
		}
	}
	if i.res.Funcs != nil {
		i.res.Funcs[fn.String()] = true
	}

	// generic function body?
	if fn.TypeParams().Len() > 0 && len(fn.TypeArgs()) == 0 {
		panic("interp requires ssa.BuilderMode to include InstantiateGenerics to execute generics")
	}

	fr.env = make(map[ssa.Value]value)
	fr.block = fn.Blocks[0]
	fr.locals = make([]value, len(fn.Locals))
	for i, l := range fn.Locals {
		fr.locals[i] = zero(mustDeref(l.Type()))
		fr.env[l] = &fr.locals[i]
	}
	for i, p := range fn.Params {
		fr.env[p] = args[i]
	}
	for i, fv := range fn.FreeVars {
		fr.env[fv] = env[i]
	}
	for fr.block != nil {
		runFrame(fr)
	}
	// Destroy the locals to avoid accidental use after return.
	for i := range fn.Locals {
		fr.locals[i] = bad{}
	}
	return fr.result
}

// runFrame executes SSA instructions starting at fr.block and
// continuing until a return, a panic, or a recovered panic.
//
// After a panic, runFrame panics.
//
// After a normal return, fr.result contains the result of the call
// and fr.block is nil.
//
// A recovered panic in a function without named return parameters
// (NRPs) becomes a normal return of the zero value of the function's
// result type.
//
// After a recovered panic in a function with NRPs, fr.result is
// undefined and fr.block contains the block at which to resume
// control.
func runFrame(fr *frame) {
	defer func() {
		if fr.block == nil {
			return // normal return
		}
		if fr.i.mode&DisableRecover != 0 {
			return // let interpreter crash
		}
		fr.panicking = true
		fr.panic = recover()
		if cs, ok := fr.panic.(crashSignal); ok {
			// the modelled process died: no deferred function runs, unwind to verifrt.Crash
			fr.block = nil
			panic(cs)
		}
		if pa, ok := fr.panic.(pathAbort); ok {
			fr.block = nil
			if (pa.kind == "unsupported" || pa.kind == "limit") && !strings.Contains(pa.msg, "\n") {
				pa.msg += "\n" + fr.where()
			}
			panic(pa)
		}
		if !isTargetPanic(fr.panic) {
			fr.block = nil
			panic(pathAbort{"internal", fmt.Sprintf("%v\nat %s\n%s", fr.panic, fr.where(), debug.Stack())})
		}
		if fr.i.panicTrace == "" {
			fr.i.panicTrace = fr.where()
			if os.Getenv("GOSYM_PANICSTACK") != "" {
				fmt.Fprintf(os.Stderr, "target panic %v at %s\n%s\n", fr.panic, fr.where(), debug.Stack())
			}
		}
		if fr.i.mode&EnableTracing != 0 {
			fmt.Fprintf(os.Stderr, "Panicking: %T %v.\n", fr.panic, fr.panic)
		}
		fr.runDefers()
		fr.block = fr.fn.Recover
	}()

	for {
		if fr.i.mode&EnableTracing != 0 {
			fmt.Fprintf(os.Stderr, ".%s:\n", fr.block)
		}

		nonPhis := executePhis(fr)
		for _, instr := range nonPhis {
			if fr.i.mode&EnableTracing != 0 {
				if v, ok := instr.(ssa.Value); ok {
					fmt.Fprintln(os.Stderr, "\t", v.Name(), "=", instr)
				} else {
					fmt.Fprintln(os.Stderr, "\t", instr)
				}
			}
			fr.cur = instr
			fr.i.curFr = fr
			fr.i.steps++
			if fr.i.steps > fr.i.cfg.MaxSteps {
				panic(pathAbort{"limit", fmt.Sprintf("more than %d instructions on one path", fr.i.cfg.MaxSteps)})
			}
			if visitInstr(fr, instr) == kReturn {
				return
			}
			// Inv: kNext (continue) or kJump (last instr)
		}
	}
}

// executePhis executes the phi-nodes at the start of the current
// block and returns the non-phi instructions.
func executePhis(fr *frame) []ssa.Instruction {
	firstNonPhi := -1
	for i, instr := range fr.block.Instrs {
		if _, ok := instr.(*ssa.Phi); !ok {
			firstNonPhi = i
			break
		}
	}
	// Inv: 0 <= firstNonPhi; every block contains a non-phi.

	nonPhis := fr.block.Instrs[firstNonPhi:]
	if firstNonPhi > 0 {
		phis := fr.block.Instrs[:firstNonPhi]
		// Execute parallel assignment of phis.
		//
		// See "the swap problem" in Briggs et al's "Practical Improvements
		// to the Construction and Destruction of SSA Form" for discussion.
		predIndex := slices.Index(fr.block.Preds, fr.prevBlock)
		fr.phitemps = fr.phitemps[:0]
		for _, phi := range phis {
			phi := phi.(*ssa.Phi)
			if fr.i.mode&EnableTracing != 0 {
				fmt.Fprintln(os.Stderr, "\t", phi.Name(), "=", phi)
			}
			fr.phitemps = append(fr.phitemps, fr.get(phi.Edges[predIndex]))
		}
		for i, phi := range phis {
			fr.env[phi.(*ssa.Phi)] = fr.phitemps[i]
		}
	}
	return nonPhis
}

// doRecover implements the recover() built-in.
func doRecover(caller *frame) value {
	// recover() must be exactly one level beneath the deferred
	// function (two levels beneath the panicking function) to
	// have any effect.  Thus we ignore both "defer recover()" and
	// "defer f() -> g() -> recover()".
	if caller.i.mode&DisableRecover == 0 &&
		caller != nil && !caller.panicking &&
		caller.caller != nil && caller.caller.panicking {
		caller.caller.panicking = false
		p := caller.caller.panic
		caller.caller.panic = nil

		// TODO(adonovan): support runtime.Goexit.
		switch p := p.(type) {
		case targetPanic:
			// The target program explicitly called panic().
			return p.v
		case runtimeError:
			return iface{caller.i.runtimeErrorString, p.Error()}
		case runtime.Error:
			// The interpreter encountered a runtime error.
			return iface{caller.i.runtimeErrorString, p.Error()}
		case string:
			// The interpreter explicitly called panic().
			return iface{caller.i.runtimeErrorString, p}
		default:
			panic(fmt.Sprintf("unexpected panic type %T in target call to recover()", p))
		}
	}
	return iface{}
}


// where renders the interpreted call stack at fr.
func (fr *frame) where() string {
	var sb []byte
	for f, n := fr, 0; f != nil && n < 12; f, n = f.caller, n+1 {
		pos := ""
		if f.cur != nil {
			pos = f.fn.Prog.Fset.Position(f.cur.Pos()).String()
		}
		sb = append(sb, fmt.Sprintf("  %s %s\n", f.fn.String(), pos)...)
	}
	return string(sb)
}

// lateLoad: `return v, f()` where v is a variable shared with other goroutines/closures — the
// language leaves the order of reading v and calling f unspecified; the gc compiler reads an
// escaping variable after the calls, go/ssa before them. The repository relies on gc's order
// (downloader.stream: `return typ, g.Wait()`), so a result that is a plain load of a heap variable
// made in the returning block before a call is re-read at the return, as gc does.
func (fr *frame) lateLoad(ret *ssa.Return, r ssa.Value) value {
	u, ok := r.(*ssa.UnOp)
	if !ok || u.Op != token.MUL || u.Block() != ret.Block() {
		return fr.get(r)
	}
	switch x := u.X.(type) {
	case *ssa.Alloc:
		if !x.Heap {
			return fr.get(r)
		}
	case *ssa.FreeVar:
	default:
		return fr.get(r)
	}
	callAfter := false
	seen := false
	for _, in := range ret.Block().Instrs {
		if in == ssa.Instruction(u) {
			seen = true
			continue
		}
		if seen {
			if _, isCall := in.(*ssa.Call); isCall {
				callAfter = true
			}
		}
	}
	if !callAfter {
		return fr.get(r)
	}
	if p, ok := fr.get(u.X).(*value); ok && p != nil {
		return load(mustDeref(u.X.Type()), p)
	}
	return fr.get(r)
}
