package interp

// Cooperative goroutines (one runs at a time, baton passing over real goroutines),
// channels, select, virtual clock and timers.

import (
	"fmt"
	"go/token"
	"go/types"
	"sort"

	"golang.org/x/tools/go/ssa"

	"gosym/smt"
)

type goroutine struct {
	id      int
	wake    chan struct{}
	done    bool
	started bool
	ready   func() bool // non-nil while blocked
	what    string
	daemon  bool
}

type vtimer struct {
	when    int64
	seq     int
	fire    func()
	stopped bool
	fired   bool
}

type wstate struct {
	done        bool
	idx         int
	val         value
	ok          bool
	panicClosed bool
}

type waiter struct {
	st  *wstate
	idx int
	val value // value to send (send waiters)
}

type channel struct {
	id     int
	buf    []value
	cap    int
	closed bool
	recvq  waitq
	sendq  waitq
	elem   types.Type
}

type sched struct {
	gs        []*goroutine
	cur       *goroutine
	now       int64
	timers    []*vtimer
	tseq      int
	explore   bool
	preempt   int // remaining preemption budget
	chanSeq   int
	realExit  chan struct{}
	live      int
}

const epoch = int64(1_700_000_000) * 1_000_000_000 // virtual clock start (2023-11-14)

func (i *interpreter) initSched() {
	g0 := &goroutine{id: 0, wake: make(chan struct{}, 1), started: true}
	i.sch = &sched{gs: []*goroutine{g0}, cur: g0, now: epoch, realExit: make(chan struct{}, 1024)}
}

func (i *interpreter) checkKilled() {
	if i.killed {
		panic(pathAbort{"killed", ""})
	}
}

// spawn starts fn(args) as a new target goroutine.
func (i *interpreter) spawn(pos token.Pos, fn value, args []value) *goroutine {
	s := i.sch
	g := &goroutine{id: len(s.gs), wake: make(chan struct{}, 1)}
	s.gs = append(s.gs, g)
	s.live++
	go func() {
		defer func() { s.realExit <- struct{}{} }()
		<-g.wake
		if i.killed {
			return
		}
		g.started = true
		func() {
			defer func() {
				r := recover()
				g.done = true
				if r == nil {
					return
				}
				if pa, ok := r.(pathAbort); ok {
					if pa.kind != "killed" {
						i.abortFrom(pa)
					}
					return
				}
				// uncaught target panic in a goroutine: program crash
				i.recordPanic(r)
				i.abortFrom(pathAbort{"panic", panicText(r)})
			}()
			call(i, nil, pos, fn, args)
		}()
		if i.killed {
			return
		}
		func() {
			defer func() {
				if r := recover(); r != nil {
					if pa, ok := r.(pathAbort); ok {
						if pa.kind != "killed" {
							i.abortFrom(pa)
						}
						return
					}
					panic(r)
				}
			}()
			i.switchAway(true)
		}()
	}()
	return g
}

// abortFrom is called on a non-main goroutine to abort the whole path.
func (i *interpreter) abortFrom(pa pathAbort) {
	if i.abortReason == nil {
		p := pa
		i.abortReason = &p
	}
	i.killed = true
	main := i.sch.gs[0]
	select {
	case main.wake <- struct{}{}:
	default:
	}
}

// killAll terminates every parked goroutine (called by main at path end).
func (i *interpreter) killAll() {
	i.killed = true
	s := i.sch
	for _, g := range s.gs[1:] {
		select {
		case g.wake <- struct{}{}:
		default:
		}
	}
	for n := 0; n < s.live; n++ {
		<-s.realExit
	}
	s.live = 0
}

func (s *sched) runnable() []*goroutine {
	var out []*goroutine
	for _, g := range s.gs {
		if g.done {
			continue
		}
		if g.ready == nil || g.ready() {
			out = append(out, g)
		}
	}
	return out
}

// fireNextTimer advances the virtual clock to the earliest pending timer and fires it.
func (i *interpreter) fireNextTimer(limit int64) bool {
	s := i.sch
	var best *vtimer
	for _, t := range s.timers {
		if t.stopped || t.fired {
			continue
		}
		if best == nil || t.when < best.when || (t.when == best.when && t.seq < best.seq) {
			best = t
		}
	}
	if best == nil || (limit >= 0 && best.when > limit) {
		return false
	}
	if best.when > s.now {
		s.now = best.when
	}
	best.fired = true
	best.fire()
	// compact
	if len(s.timers) > 64 {
		var keep []*vtimer
		for _, t := range s.timers {
			if !t.stopped && !t.fired {
				keep = append(keep, t)
			}
		}
		s.timers = keep
	}
	return true
}

// switchAway gives up the processor. exiting: the current goroutine has finished.
func (i *interpreter) switchAway(exiting bool) {
	s := i.sch
	me := s.cur
	for {
		cands := s.runnable()
		if len(cands) == 0 {
			if i.settleWaiter != nil && !i.settleWaiter.done {
				// main is waiting for quiescence: that is now
				g := i.settleWaiter
				i.settleWaiter = nil
				g.ready = nil
				cands = []*goroutine{g}
			} else if i.fireNextTimer(-1) {
				continue
			} else {
				// deadlock
				i.deadlock()
				return
			}
		}
		var next *goroutine
		if len(cands) == 1 || !s.explore {
			next = cands[0]
			// prefer to keep running me if I'm runnable (no gratuitous switches)
			for _, g := range cands {
				if g == me && !exiting {
					next = g
				}
			}
		} else {
			next = i.chooseGoroutine(cands, me, exiting)
		}
		if next == me && !exiting {
			me.ready = nil
			return
		}
		next.ready = nil
		s.cur = next
		next.wake <- struct{}{}
		if exiting {
			return
		}
		<-me.wake
		i.checkKilled()
		return
	}
}

func (i *interpreter) chooseGoroutine(cands []*goroutine, me *goroutine, exiting bool) *goroutine {
	sort.Slice(cands, func(a, b int) bool { return cands[a].id < cands[b].id })
	conds := make([]*smt.Term, len(cands))
	for j := range conds {
		conds[j] = i.ctx.True()
	}
	// a free choice: all alternatives feasible. Encode as decision without solver involvement.
	ch := i.freeChoice(len(cands), 's')
	return cands[ch]
}

// freeChoice is an n-way decision with no constraint attached (schedules, select ties).
func (i *interpreter) freeChoice(n int, kind byte) int {
	if n == 1 {
		return 0
	}
	if i.cfg.Concrete != nil && i.cfg.FreeChoices != nil {
		// interpreter-side replay: free choices (schedule, select, crash) come from the recorded
		// path, in order; data-dependent decisions do not exist in a concrete run
		if i.freeIdx < len(i.cfg.FreeChoices) {
			d := i.cfg.FreeChoices[i.freeIdx]
			i.freeIdx++
			i.trail = append(i.trail, d)
			if d.Choice < n {
				return d.Choice
			}
		}
		return 0
	}
	d := len(i.trail)
	if d < len(i.prefix) {
		i.trail = append(i.trail, i.prefix[d])
		return i.prefix[d].Choice
	}
	if len(i.trail) >= i.cfg.MaxDecisions {
		panic(pathAbort{"limit", fmt.Sprintf("more than %d decisions on one path", i.cfg.MaxDecisions)})
	}
	for alt := 1; alt < n; alt++ {
		p := make([]Decision, len(i.trail), len(i.trail)+1)
		copy(p, i.trail)
		p = append(p, Decision{Choice: alt, N: n, Kind: kind})
		i.res.Forks = append(i.res.Forks, p)
	}
	i.trail = append(i.trail, Decision{Choice: 0, N: n, Kind: kind})
	return 0
}

// block parks the current goroutine until ready() holds.
func (i *interpreter) block(ready func() bool, what string) {
	me := i.sch.cur
	for !ready() {
		me.ready = ready
		me.what = what
		i.switchAway(false)
	}
	me.ready = nil
}

// yield is a scheduling point at a visible operation (only matters in explore mode).
func (i *interpreter) yield() {
	s := i.sch
	if !s.explore || s.preempt <= 0 {
		return
	}
	cands := s.runnable()
	if len(cands) <= 1 {
		return
	}
	me := s.cur
	sort.Slice(cands, func(a, b int) bool { return cands[a].id < cands[b].id })
	// put me first so that choice 0 = continue
	ordered := []*goroutine{me}
	for _, g := range cands {
		if g != me {
			ordered = append(ordered, g)
		}
	}
	ch := i.freeChoice(len(ordered), 's')
	if ch == 0 {
		return
	}
	s.preempt--
	next := ordered[ch]
	s.cur = next
	next.wake <- struct{}{}
	<-me.wake
	i.checkKilled()
}

func (i *interpreter) deadlock() {
	// Everyone is blocked and no timer is pending.
	var who []string
	for _, g := range i.sch.gs {
		if !g.done {
			who = append(who, fmt.Sprintf("g%d:%s", g.id, g.what))
		}
	}
	pa := pathAbort{"deadlock", fmt.Sprint(who)}
	if i.sch.cur.id == 0 {
		panic(pa)
	}
	i.abortFrom(pa)
	// park forever (until killed)
	me := i.sch.cur
	if !me.done {
		<-me.wake
		i.checkKilled()
	}
}

// settle runs all other goroutines until every one of them is blocked or finished
// (timers are not fired). Called on the main goroutine by verifrt.Settle.
func (i *interpreter) settle() {
	s := i.sch
	me := s.cur
	others := false
	for _, g := range s.runnable() {
		if g != me {
			others = true
		}
	}
	if !others {
		return
	}
	i.settleWaiter = me
	me.ready = func() bool { return false }
	me.what = "settle"
	i.switchAway(false)
	me.ready = nil
}

// advance moves the virtual clock forward by d, firing timers in order and settling after each.
func (i *interpreter) advance(d int64) {
	s := i.sch
	target := s.now + d
	i.settle()
	for i.fireNextTimer(target) {
		i.settle()
	}
	if s.now < target {
		s.now = target
	}
}

func (i *interpreter) addTimer(when int64, fire func()) *vtimer {
	s := i.sch
	s.tseq++
	t := &vtimer{when: when, seq: s.tseq, fire: fire}
	s.timers = append(s.timers, t)
	return t
}

// --- channels -------------------------------------------------------------------

func (i *interpreter) makeChan(elem types.Type, capacity int) *channel {
	i.sch.chanSeq++
	return &channel{id: i.sch.chanSeq, cap: capacity, elem: elem}
}

type waitq []*waiter

func (q *waitq) popLive() *waiter {
	for len(*q) > 0 {
		w := (*q)[0]
		*q = (*q)[1:]
		if !w.st.done {
			return w
		}
	}
	return nil
}

func hasLive(q []*waiter) bool {
	for _, w := range q {
		if !w.st.done {
			return true
		}
	}
	return false
}

func (i *interpreter) chanSendReady(ch *channel) bool {
	return ch.closed || hasLive(ch.recvq) || len(ch.buf) < ch.cap
}

func (i *interpreter) chanRecvReady(ch *channel) bool {
	return ch.closed || len(ch.buf) > 0 || hasLive(ch.sendq)
}

// trySend performs the send if it can complete now.
func (i *interpreter) trySend(ch *channel, v value) bool {
	if ch.closed {
		panic(targetPanic{iface{t: types.Typ[types.String], v: "send on closed channel"}})
	}
	if w := ch.recvq.popLive(); w != nil {
		w.st.done = true
		w.st.idx = w.idx
		w.st.val = v
		w.st.ok = true
		return true
	}
	if len(ch.buf) < ch.cap {
		ch.buf = append(ch.buf, v)
		return true
	}
	return false
}

func (i *interpreter) tryRecv(ch *channel) (value, bool, bool) {
	if len(ch.buf) > 0 {
		v := ch.buf[0]
		ch.buf = ch.buf[1:]
		if w := ch.sendq.popLive(); w != nil {
			ch.buf = append(ch.buf, w.val)
			w.st.done = true
			w.st.idx = w.idx
		}
		return v, true, true
	}
	if w := ch.sendq.popLive(); w != nil {
		w.st.done = true
		w.st.idx = w.idx
		return w.val, true, true
	}
	if ch.closed {
		return zero(ch.elem), false, true
	}
	return nil, false, false
}

func (i *interpreter) chanSend(chv value, v value) {
	ch, _ := chv.(*channel)
	i.yield()
	if ch == nil {
		i.block(func() bool { return false }, "send on nil chan")
		return
	}
	if i.trySend(ch, v) {
		return
	}
	st := &wstate{}
	ch.sendq = append(ch.sendq, &waiter{st: st, val: v})
	i.block(func() bool { return st.done }, fmt.Sprintf("send ch%d", ch.id))
	if st.panicClosed {
		panic(targetPanic{iface{t: types.Typ[types.String], v: "send on closed channel"}})
	}
}

func (i *interpreter) chanRecv(chv value, elem types.Type) (value, bool) {
	ch, _ := chv.(*channel)
	i.yield()
	if ch == nil {
		i.block(func() bool { return false }, "recv on nil chan")
		return nil, false
	}
	if v, ok, done := i.tryRecv(ch); done {
		return v, ok
	}
	st := &wstate{}
	ch.recvq = append(ch.recvq, &waiter{st: st})
	i.block(func() bool { return st.done }, fmt.Sprintf("recv ch%d", ch.id))
	if !st.ok {
		return zero(elem), false
	}
	return st.val, true
}

func (i *interpreter) chanClose(chv value) {
	ch, _ := chv.(*channel)
	if ch == nil {
		panic(targetPanic{iface{t: types.Typ[types.String], v: "close of nil channel"}})
	}
	if ch.closed {
		panic(targetPanic{iface{t: types.Typ[types.String], v: "close of closed channel"}})
	}
	i.yield()
	ch.closed = true
	for _, w := range ch.recvq {
		if !w.st.done {
			w.st.done = true
			w.st.idx = w.idx
			w.st.ok = false
			w.st.val = zero(ch.elem)
		}
	}
	ch.recvq = nil
	for _, w := range ch.sendq {
		if !w.st.done {
			w.st.done = true
			w.st.idx = w.idx
			w.st.panicClosed = true
		}
	}
	ch.sendq = nil
}

// doSelect implements ssa.Select.
func (i *interpreter) doSelect(fr *frame, instr *ssa.Select) value {
	i.yield()
	type scase struct {
		ch   *channel
		send bool
		val  value
		elem types.Type
	}
	cases := make([]scase, len(instr.States))
	for k, st := range instr.States {
		ch, _ := fr.get(st.Chan).(*channel)
		cases[k] = scase{ch: ch, send: st.Dir == types.SendOnly, elem: st.Chan.Type().Underlying().(*types.Chan).Elem()}
		if st.Send != nil {
			cases[k].val = fr.get(st.Send)
		}
	}
	result := func(chosen int, recv value, recvOk bool) value {
		r := tuple{chosen, recvOk}
		for k, st := range instr.States {
			if st.Dir == types.RecvOnly {
				var v value
				if k == chosen && recvOk {
					v = recv
				} else {
					v = zero(cases[k].elem)
				}
				r = append(r, v)
			}
		}
		return r
	}
	var ready []int
	for k, c := range cases {
		if c.ch == nil {
			continue
		}
		if c.send {
			if i.chanSendReady(c.ch) {
				ready = append(ready, k)
			}
		} else if i.chanRecvReady(c.ch) {
			ready = append(ready, k)
		}
	}
	if len(ready) > 0 {
		k := ready[0]
		if len(ready) > 1 && i.sch.explore {
			k = ready[i.freeChoice(len(ready), 'x')]
		}
		c := cases[k]
		if c.send {
			i.trySend(c.ch, c.val)
			return result(k, nil, false)
		}
		v, ok, _ := i.tryRecv(c.ch)
		return result(k, v, ok)
	}
	if !instr.Blocking {
		return result(-1, nil, false)
	}
	st := &wstate{}
	for k, c := range cases {
		if c.ch == nil {
			continue
		}
		w := &waiter{st: st, idx: k, val: c.val}
		if c.send {
			c.ch.sendq = append(c.ch.sendq, w)
		} else {
			c.ch.recvq = append(c.ch.recvq, w)
		}
	}
	i.block(func() bool { return st.done }, "select")
	if st.panicClosed {
		panic(targetPanic{iface{t: types.Typ[types.String], v: "send on closed channel"}})
	}
	if cases[st.idx].send {
		return result(st.idx, nil, false)
	}
	return result(st.idx, st.val, st.ok)
}
