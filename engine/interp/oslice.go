package interp

// Opaque slices: slices of scalars whose length is a symbolic term (DESIGN.md 3.2).
// Supported natively: len/cap, re-slicing, indexing at concrete (or concretised) positions,
// copy, append onto a concrete prefix. Anything else materialises the slice (concretising
// its length, which forks over the feasible values).

import (
	"fmt"
	"go/types"
	"sort"

	"gosym/smt"
)

type obase struct {
	cells map[int]*value
	elemT types.Type
	size  *smt.Term // 64-bit
	real  []value   // set once materialised
}

type oslice struct {
	base *obase
	off  int
	len  *smt.Term // 64-bit
	cap  *smt.Term // 64-bit
}

func (i *interpreter) newOpaque(elemT types.Type, n *smt.Term) *oslice {
	b := &obase{cells: map[int]*value{}, elemT: elemT, size: n}
	return &oslice{base: b, off: 0, len: n, cap: n}
}

func (b *obase) cell(j int) *value {
	if c, ok := b.cells[j]; ok {
		return c
	}
	v := zero(b.elemT)
	c := &v
	b.cells[j] = c
	return c
}

func (i *interpreter) int64Term(v value) *smt.Term {
	t := i.term(v)
	if t.W == 64 {
		return t
	}
	if kindSigned(valueKind(v)) {
		return i.ctx.SExt(t, 64)
	}
	return i.ctx.ZExt(t, 64)
}

func (i *interpreter) olen(o *oslice) value { return mkval(o.len, types.Int) }
func (i *interpreter) ocap(o *oslice) value { return mkval(o.cap, types.Int) }

// materialize turns o into an ordinary slice (concretising its length and capacity).
func (i *interpreter) materialize(o *oslice) []value {
	b := o.base
	if b.real == nil {
		n := int(i.concInt(mkval(b.size, types.Int)))
		if n < 0 || n > maxConcreteAlloc {
			panic(pathAbort{"limit", fmt.Sprintf("materialising opaque slice of %d elements", n)})
		}
		real := make([]value, n)
		for j := range real {
			if c, ok := b.cells[j]; ok {
				real[j] = *c
			} else {
				real[j] = zero(b.elemT)
			}
		}
		b.real = real
		i.noteAlloc(n)
	}
	l := int(i.concInt(mkval(o.len, types.Int)))
	c := int(i.concInt(mkval(o.cap, types.Int)))
	if o.off < 0 || o.off+c > len(b.real) || l > c || l < 0 {
		panic(fmt.Sprintf("opaque slice view out of range: off=%d len=%d cap=%d size=%d", o.off, l, c, len(b.real)))
	}
	return b.real[o.off : o.off+l : o.off+c]
}

// asSlice returns v as []value, materialising opaque slices.
func (i *interpreter) asSlice(v value) []value {
	switch v := v.(type) {
	case []value:
		return v
	case *oslice:
		return i.materialize(v)
	case nil:
		return nil
	}
	panic(fmt.Sprintf("asSlice of %T", v))
}

// oSlice implements x[lo:hi:max] for opaque x.
func (i *interpreter) oSlice(o *oslice, lo, hi, max value) value {
	if o.base.real != nil {
		return i.slice(i.materialize(o), lo, hi, max)
	}
	c := i.ctx
	zero64 := c.BV(0, 64)
	l, h, m := zero64, o.len, o.cap
	if lo != nil {
		l = i.int64Term(lo)
	}
	if hi != nil {
		h = i.int64Term(hi)
	}
	if max != nil {
		m = i.int64Term(max)
	}
	ok := c.And(c.Sle(zero64, l), c.And(c.Sle(l, h), c.And(c.Sle(h, m), c.Sle(m, o.cap))))
	if !i.branch(ok) {
		panic(runtimeError("slice bounds out of range"))
	}
	if !l.IsConst() && l == h {
		// x[len(x):] and friends: an empty view (its capacity tail is dropped)
		e := i.newOpaque(o.base.elemT, c.BV(0, 64))
		return e
	}
	lc := int(i.concInt(mkval(l, types.Int)))
	return &oslice{base: o.base, off: o.off + lc, len: c.Sub(h, c.BV(uint64(lc), 64)), cap: c.Sub(m, c.BV(uint64(lc), 64))}
}

func (i *interpreter) oIndexAddr(o *oslice, idx value) value {
	if o.base.real != nil {
		s := i.materialize(o)
		n := i.concInt(idx)
		if n < 0 || n >= int64(len(s)) {
			panic(runtimeError(fmt.Sprintf("index out of range [%d] with length %d", n, len(s))))
		}
		return &s[n]
	}
	c := i.ctx
	t := i.int64Term(idx)
	inb := c.And(c.Sle(c.BV(0, 64), t), c.Slt(t, o.len))
	if !i.branch(inb) {
		panic(runtimeError("index out of range (opaque slice)"))
	}
	n := int(i.concInt(mkval(t, types.Int)))
	return o.base.cell(o.off + n)
}

// oCopy implements copy(dst, src) when at least one side is opaque. Returns the count.
func (i *interpreter) oCopy(dst, src value) value {
	c := i.ctx
	lenOf := func(v value) *smt.Term {
		switch v := v.(type) {
		case *oslice:
			return v.len
		case []value:
			return c.BV(uint64(len(v)), 64)
		}
		panic("oCopy: bad operand")
	}
	ld, ls := lenOf(dst), lenOf(src)
	cnt := c.Ite(c.Slt(ld, ls), ld, ls)
	od, dOpaque := dst.(*oslice)
	os, sOpaque := src.(*oslice)
	if dOpaque && od.base.real != nil {
		return i.oCopy(i.materialize(od), src)
	}
	if sOpaque && os.base.real != nil {
		return i.oCopy(dst, i.materialize(os))
	}
	if !dOpaque && !sOpaque {
		d, s := dst.([]value), src.([]value)
		n := len(d)
		if len(s) < n {
			n = len(s)
		}
		tmp := append([]value{}, s[:n]...)
		copy(d, tmp)
		return n
	}
	// one side has a concrete length: the count ranges over at most that many values
	if !dOpaque || !sOpaque {
		n := int(i.concInt(mkval(cnt, types.Int)))
		tmp := make([]value, n)
		for j := 0; j < n; j++ {
			if sOpaque {
				tmp[j] = *os.base.cell(os.off + j)
			} else {
				tmp[j] = src.([]value)[j]
			}
		}
		for j := 0; j < n; j++ {
			if dOpaque {
				*od.base.cell(od.off + j) = tmp[j]
			} else {
				dst.([]value)[j] = tmp[j]
			}
		}
		return n
	}
	// both opaque, symbolic count: update every materialised cell conditionally
	if cnt.IsConst() {
		n := int(cnt.Val)
		tmp := make([]value, n)
		for j := 0; j < n; j++ {
			tmp[j] = *os.base.cell(os.off + j)
		}
		for j := 0; j < n; j++ {
			*od.base.cell(od.off + j) = tmp[j]
		}
		return n
	}
	idx := map[int]bool{}
	for k := range os.base.cells {
		if k >= os.off {
			idx[k-os.off] = true
		}
	}
	for k := range od.base.cells {
		if k >= od.off {
			idx[k-od.off] = true
		}
	}
	var js []int
	for j := range idx {
		js = append(js, j)
	}
	sort.Ints(js)
	newv := make([]value, len(js))
	for k, j := range js {
		sv := *os.base.cell(os.off + j)
		dv := *od.base.cell(od.off + j)
		inside := c.Slt(c.BV(uint64(j), 64), cnt)
		newv[k] = i.iteVal(inside, sv, dv)
	}
	for k, j := range js {
		*od.base.cell(od.off + j) = newv[k]
	}
	return mkval(cnt, types.Int)
}

// oAppend implements append(x, ys...) when x is concrete and ys opaque: the result is a fresh
// opaque slice (Go would reuse x's backing array only if its capacity sufficed; the callers this
// engine meets do not retain other references to that array).
func (i *interpreter) oAppend(x []value, ys *oslice) value {
	if ys.base.real != nil {
		return append(x, i.materialize(ys)...)
	}
	c := i.ctx
	n := c.Add(c.BV(uint64(len(x)), 64), ys.len)
	r := i.newOpaque(ys.base.elemT, n)
	for j, v := range x {
		*r.base.cell(j) = v
	}
	for k, cell := range ys.base.cells {
		if k >= ys.off {
			*r.base.cell(len(x) + k - ys.off) = *cell
		}
	}
	return r
}
