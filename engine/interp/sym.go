package interp

// Symbolic scalar values and the symbolic halves of binop/unop/conv/equality.

import (
	"fmt"
	"go/token"
	"go/types"
	"math/big"

	"gosym/smt"
)

// sv is a symbolic bool or integer of Go basic kind k.
type sv struct {
	t *smt.Term
	k types.BasicKind
}

// sstr is a string with (possibly) symbolic bytes; length is concrete.
// Each element is uint8 or sv{k: Uint8}.
type sstr []value

func kindWidth(k types.BasicKind) int {
	switch k {
	case types.Bool, types.UntypedBool:
		return 0
	case types.Int8, types.Uint8:
		return 8
	case types.Int16, types.Uint16:
		return 16
	case types.Int32, types.Uint32, types.UntypedRune:
		return 32
	case types.Int, types.Uint, types.Int64, types.Uint64, types.Uintptr, types.UntypedInt:
		return 64
	}
	return -1
}

func kindSigned(k types.BasicKind) bool {
	switch k {
	case types.Int, types.Int8, types.Int16, types.Int32, types.Int64, types.UntypedInt, types.UntypedRune:
		return true
	}
	return false
}

func isSym(v value) bool {
	switch v.(type) {
	case sv, sstr:
		return true
	}
	return false
}

func valueKind(v value) types.BasicKind {
	switch v := v.(type) {
	case sv:
		return v.k
	case bool:
		return types.Bool
	case int:
		return types.Int
	case int8:
		return types.Int8
	case int16:
		return types.Int16
	case int32:
		return types.Int32
	case int64:
		return types.Int64
	case uint:
		return types.Uint
	case uint8:
		return types.Uint8
	case uint16:
		return types.Uint16
	case uint32:
		return types.Uint32
	case uint64:
		return types.Uint64
	case uintptr:
		return types.Uintptr
	}
	return types.Invalid
}

// term converts a bool/integer value (concrete or symbolic) to a term.
func (i *interpreter) term(v value) *smt.Term {
	switch v := v.(type) {
	case sv:
		return v.t
	case bool:
		return i.ctx.Bool(v)
	case int:
		return i.ctx.BV(uint64(v), 64)
	case int8:
		return i.ctx.BV(uint64(v), 8)
	case int16:
		return i.ctx.BV(uint64(v), 16)
	case int32:
		return i.ctx.BV(uint64(v), 32)
	case int64:
		return i.ctx.BV(uint64(v), 64)
	case uint:
		return i.ctx.BV(uint64(v), 64)
	case uint8:
		return i.ctx.BV(uint64(v), 8)
	case uint16:
		return i.ctx.BV(uint64(v), 16)
	case uint32:
		return i.ctx.BV(uint64(v), 32)
	case uint64:
		return i.ctx.BV(v, 64)
	case uintptr:
		return i.ctx.BV(uint64(v), 64)
	}
	panic(unsupported(fmt.Sprintf("term of %T", v)))
}

// mkval wraps a term as a value of kind k, collapsing constants to concrete Go values.
func mkval(t *smt.Term, k types.BasicKind) value {
	if t.IsConst() {
		return constOfKind(t.BigVal(), k)
	}
	return sv{t, k}
}

func constOfKind(b *big.Int, k types.BasicKind) value {
	u := b.Uint64()
	switch k {
	case types.Bool, types.UntypedBool:
		return u != 0
	case types.Int, types.UntypedInt:
		return int(u)
	case types.Int8:
		return int8(u)
	case types.Int16:
		return int16(u)
	case types.Int32, types.UntypedRune:
		return int32(u)
	case types.Int64:
		return int64(u)
	case types.Uint:
		return uint(u)
	case types.Uint8:
		return uint8(u)
	case types.Uint16:
		return uint16(u)
	case types.Uint32:
		return uint32(u)
	case types.Uint64:
		return u
	case types.Uintptr:
		return uintptr(u)
	}
	panic(fmt.Sprintf("constOfKind %v", k))
}

// symBinop handles a binary operator where at least one operand is symbolic.
func (i *interpreter) symBinop(op token.Token, t types.Type, x, y value) value {
	c := i.ctx
	// strings
	if xs, ok := asSstr(x); ok {
		ys, ok2 := asSstr(y)
		if !ok2 {
			panic(unsupported("string binop with non-string"))
		}
		switch op {
		case token.ADD:
			r := make(sstr, 0, len(xs)+len(ys))
			r = append(r, xs...)
			r = append(r, ys...)
			return normStr(r)
		case token.EQL:
			return mkval(i.strEq(xs, ys), types.Bool)
		case token.NEQ:
			return mkval(c.Not(i.strEq(xs, ys)), types.Bool)
		case token.LSS, token.LEQ, token.GTR, token.GEQ:
			lt, eq := i.strCmp(xs, ys)
			switch op {
			case token.LSS:
				return mkval(lt, types.Bool)
			case token.LEQ:
				return mkval(c.Or(lt, eq), types.Bool)
			case token.GTR:
				return mkval(c.Not(c.Or(lt, eq)), types.Bool)
			default:
				return mkval(c.Not(lt), types.Bool)
			}
		}
		panic(unsupported("string op " + op.String()))
	}
	kx := valueKind(x)
	if kx == types.Invalid {
		// aggregate comparison with symbolic parts
		switch op {
		case token.EQL:
			return mkval(i.eqTerm(t, x, y), types.Bool)
		case token.NEQ:
			return mkval(c.Not(i.eqTerm(t, x, y)), types.Bool)
		}
		panic(unsupported(fmt.Sprintf("symbolic binop %s on %T", op, x)))
	}
	a := i.term(x)
	if op == token.SHL || op == token.SHR {
		return i.symShift(op, kx, a, y)
	}
	b := i.term(y)
	if kx == types.Bool {
		switch op {
		case token.EQL:
			return mkval(c.Eq(a, b), types.Bool)
		case token.NEQ:
			return mkval(c.Not(c.Eq(a, b)), types.Bool)
		}
		panic(unsupported("bool op " + op.String()))
	}
	sg := kindSigned(kx)
	switch op {
	case token.ADD:
		return mkval(c.Add(a, b), kx)
	case token.SUB:
		return mkval(c.Sub(a, b), kx)
	case token.MUL:
		if i.mulBack != nil && a.W == 64 {
			for k, x := range [2]*smt.Term{a, b} {
				y := [2]*smt.Term{b, a}[k]
				if y.IsConst() && y.Big == nil && !x.IsConst() {
					if t, ok := i.mulBack[divKey{x.ID, y.Val}]; ok {
						return mkval(t, kx)
					}
				}
			}
		}
		return mkval(c.Mul(a, b), kx)
	case token.QUO, token.REM:
		// division by zero panics
		zero := c.Eq(b, c.BV(0, b.W))
		if i.branch(zero) {
			panic(runtimeError("integer divide by zero"))
		}
		if sg {
			if q, r, ok := i.splitDivConst(a, b); ok {
				if op == token.QUO {
					return mkval(q, kx)
				}
				return mkval(r, kx)
			}
			if op == token.QUO {
				return mkval(c.SDiv(a, b), kx)
			}
			return mkval(c.SRem(a, b), kx)
		}
		if op == token.QUO {
			return mkval(c.UDiv(a, b), kx)
		}
		return mkval(c.URem(a, b), kx)
	case token.AND:
		return mkval(c.BAnd(a, b), kx)
	case token.OR:
		return mkval(c.BOr(a, b), kx)
	case token.XOR:
		return mkval(c.BXor(a, b), kx)
	case token.AND_NOT:
		return mkval(c.BAnd(a, c.BNot(b)), kx)
	case token.EQL:
		if sg {
			if t, ok := i.linCompare(a, b, false); ok {
				return mkval(t, types.Bool)
			}
		}
		return mkval(c.Eq(a, b), types.Bool)
	case token.NEQ:
		if sg {
			if t, ok := i.linCompare(a, b, false); ok {
				return mkval(c.Not(t), types.Bool)
			}
		}
		return mkval(c.Not(c.Eq(a, b)), types.Bool)
	case token.LSS:
		if sg {
			if t, ok := i.linCompare(a, b, true); ok {
				return mkval(t, types.Bool)
			}
			return mkval(c.Slt(a, b), types.Bool)
		}
		return mkval(c.Ult(a, b), types.Bool)
	case token.LEQ:
		if sg {
			if t, ok := i.linCompare(b, a, true); ok {
				return mkval(c.Not(t), types.Bool)
			}
			return mkval(c.Sle(a, b), types.Bool)
		}
		return mkval(c.Ule(a, b), types.Bool)
	case token.GTR:
		if sg {
			if t, ok := i.linCompare(b, a, true); ok {
				return mkval(t, types.Bool)
			}
			return mkval(c.Slt(b, a), types.Bool)
		}
		return mkval(c.Ult(b, a), types.Bool)
	case token.GEQ:
		if sg {
			if t, ok := i.linCompare(a, b, true); ok {
				return mkval(c.Not(t), types.Bool)
			}
			return mkval(c.Sle(b, a), types.Bool)
		}
		return mkval(c.Ule(b, a), types.Bool)
	}
	panic(unsupported("symbolic binop " + op.String()))
}

func (i *interpreter) symShift(op token.Token, kx types.BasicKind, a *smt.Term, y value) value {
	c := i.ctx
	ky := valueKind(y)
	b := i.term(y)
	if kindSigned(ky) {
		neg := c.Slt(b, c.BV(0, b.W))
		if i.branch(neg) {
			panic(runtimeError("negative shift amount"))
		}
	}
	w := a.W
	// bring b to width w, saturating
	var amt *smt.Term
	if b.W > w {
		big := c.Not(c.Ult(b, c.BV(uint64(w), b.W)))
		amt = c.Ite(big, c.BV(uint64(w), w), c.Extract(b, w-1, 0))
	} else {
		amt = c.ZExt(b, w)
	}
	if op == token.SHL {
		return mkval(c.Shl(a, amt), kx)
	}
	if kindSigned(kx) {
		return mkval(c.AShr(a, amt), kx)
	}
	return mkval(c.LShr(a, amt), kx)
}

func (i *interpreter) symUnop(op token.Token, x sv) value {
	c := i.ctx
	switch op {
	case token.SUB:
		return mkval(c.Neg(x.t), x.k)
	case token.NOT:
		return mkval(c.Not(x.t), types.Bool)
	case token.XOR:
		return mkval(c.BNot(x.t), x.k)
	}
	panic(unsupported("symbolic unop " + op.String()))
}

// symConv converts symbolic scalar x to basic kind dst.
func (i *interpreter) symConv(dst types.BasicKind, x sv) value {
	c := i.ctx
	wd := kindWidth(dst)
	if wd < 0 || x.k == types.Bool {
		if dst == x.k {
			return x
		}
		panic(unsupported(fmt.Sprintf("conversion of symbolic %v to %v", x.k, dst)))
	}
	ws := x.t.W
	var t *smt.Term
	switch {
	case wd == ws:
		t = x.t
	case wd < ws:
		t = c.Extract(x.t, wd-1, 0)
	case kindSigned(x.k):
		t = c.SExt(x.t, wd)
	default:
		t = c.ZExt(x.t, wd)
	}
	return mkval(t, dst)
}

// --- strings -----------------------------------------------------------------

func asSstr(v value) (sstr, bool) {
	switch v := v.(type) {
	case sstr:
		return v, true
	case string:
		r := make(sstr, len(v))
		for j := 0; j < len(v); j++ {
			r[j] = v[j]
		}
		return r, true
	}
	return nil, false
}

// normStr collapses a fully concrete sstr to a Go string.
func normStr(s sstr) value {
	b := make([]byte, len(s))
	for j, e := range s {
		c, ok := e.(uint8)
		if !ok {
			return s
		}
		b[j] = c
	}
	return string(b)
}

func (i *interpreter) strEq(x, y sstr) *smt.Term {
	c := i.ctx
	if len(x) != len(y) {
		return c.False()
	}
	r := c.True()
	for j := range x {
		r = c.And(r, c.Eq(i.term(x[j]), i.term(y[j])))
		if r.IsFalse() {
			return r
		}
	}
	return r
}

// strCmp returns (x<y, x==y) lexicographically.
func (i *interpreter) strCmp(x, y sstr) (lt, eq *smt.Term) {
	c := i.ctx
	n := len(x)
	if len(y) < n {
		n = len(y)
	}
	// process from the end
	if len(x) < len(y) {
		lt, eq = c.True(), c.False()
	} else if len(x) == len(y) {
		lt, eq = c.False(), c.True()
	} else {
		lt, eq = c.False(), c.False()
	}
	for j := n - 1; j >= 0; j-- {
		a, b := i.term(x[j]), i.term(y[j])
		e := c.Eq(a, b)
		l := c.Ult(a, b)
		lt = c.Or(l, c.And(e, lt))
		eq = c.And(e, eq)
	}
	return
}

// --- structural equality -------------------------------------------------------

// eqTerm returns the term for x == y at static type t.
func (i *interpreter) eqTerm(t types.Type, x, y value) *smt.Term {
	c := i.ctx
	switch x := x.(type) {
	case sv:
		return c.Eq(x.t, i.term(y))
	case sstr, string:
		xs, _ := asSstr(x)
		ys, ok := asSstr(y)
		if !ok {
			return c.False()
		}
		return i.strEq(xs, ys)
	case structure:
		ys := y.(structure)
		tStruct := t.Underlying().(*types.Struct)
		r := c.True()
		for j, n := 0, tStruct.NumFields(); j < n; j++ {
			f := tStruct.Field(j)
			if f.Name() == "_" {
				continue
			}
			r = c.And(r, i.eqTerm(f.Type(), x[j], ys[j]))
			if r.IsFalse() {
				return r
			}
		}
		return r
	case array:
		ya := y.(array)
		tElt := t.Underlying().(*types.Array).Elem()
		r := c.True()
		for j := range x {
			r = c.And(r, i.eqTerm(tElt, x[j], ya[j]))
			if r.IsFalse() {
				return r
			}
		}
		return r
	case iface:
		yi, ok := y.(iface)
		if !ok {
			return c.False()
		}
		if !sameType(x.t, yi.t) {
			return c.False()
		}
		if x.t == nil {
			return c.True()
		}
		return i.eqTerm(x.t, x.v, yi.v)
	}
	if _, ok := y.(sv); ok {
		return c.Eq(i.term(x), i.term(y))
	}
	if _, ok := y.(sstr); ok {
		return i.eqTerm(t, y, x)
	}
	return c.Bool(eqnil(t, x, y))
}

// containsSym reports whether v (scalar or aggregate, not through pointers) has symbolic parts.
func containsSym(v value) bool {
	switch v := v.(type) {
	case sv, sstr:
		return true
	case structure:
		for _, e := range v {
			if containsSym(e) {
				return true
			}
		}
	case array:
		for _, e := range v {
			if containsSym(e) {
				return true
			}
		}
	case iface:
		return containsSym(v.v)
	case tuple:
		for _, e := range v {
			if containsSym(e) {
				return true
			}
		}
	}
	return false
}

// ite builds if c then a else b for scalar values of the same kind.
func (i *interpreter) iteVal(c *smt.Term, a, b value) value {
	if c.IsTrue() {
		return a
	}
	if c.IsFalse() {
		return b
	}
	k := valueKind(a)
	if k == types.Invalid {
		if !containsSym(a) && !containsSym(b) {
			// try structural: only if equal
			panic(unsupported(fmt.Sprintf("ite over non-scalar %T", a)))
		}
		panic(unsupported(fmt.Sprintf("ite over non-scalar %T", a)))
	}
	return mkval(i.ctx.Ite(c, i.term(a), i.term(b)), k)
}
