package interp

// File-system model with crash points (C31). Documented semantics assumed (trusted base):
//   - every mutating operation (create, truncate, each written byte, rename, remove) is appended to
//     one global log of operations that have reached the page cache but not the disk;
//   - (*os.File).Sync makes everything logged so far for that file durable (and, conservatively,
//     everything logged before it: ordered journalling);
//   - a crash may happen before any file-system call (a decision point of the path); after a crash
//     the disk holds the durable state plus an arbitrary PREFIX of the unsynced log (decision
//     point), except that unsynced file DATA may lag behind metadata: of the bytes written to a
//     file and not synced only a prefix survives, independently per file (so a rename can be on
//     disk while the renamed file's content is not); a rename itself is atomic;
//   - os.WriteFile = open(O_CREATE|O_TRUNC) ; write ; close, without sync.

import (
	"fmt"
	"go/token"
	"go/types"
	"sort"
)

type fsOp struct {
	kind byte // 'c' create/truncate, 'w' append byte, 'o' overwrite byte at idx, 'r' rename, 'd' delete
	path string
	to   string
	b    value
	idx  int
}

type fsModel struct {
	durable map[string][]value // path -> content on disk (absent = no file)
	log     []fsOp             // unsynced operations in issue order
	seq     int
	crashed bool
	armed   bool // inside verifrt.Crash
}

type fsHandle struct {
	path   string
	closed bool
	off    int // file offset of the next write
}

type crashSignal struct{}

func (i *interpreter) fs() *fsModel {
	if m, ok := i.sideAny["fs"].(*fsModel); ok {
		return m
	}
	m := &fsModel{durable: map[string][]value{}}
	i.sideAny["fs"] = m
	return m
}

func applyOps(base map[string][]value, ops []fsOp) map[string][]value {
	st := map[string][]value{}
	for k, v := range base {
		st[k] = append([]value(nil), v...)
	}
	for _, op := range ops {
		switch op.kind {
		case 'c':
			st[op.path] = []value{}
		case 'w':
			st[op.path] = append(st[op.path], op.b)
		case 'o':
			if f, ok := st[op.path]; ok && op.idx < len(f) {
				f[op.idx] = op.b
			}
		case 'r':
			if v, ok := st[op.path]; ok {
				st[op.to] = v
				delete(st, op.path)
			}
		case 'd':
			delete(st, op.path)
		}
	}
	return st
}

// view: what a running process sees (everything issued so far).
func (m *fsModel) view() map[string][]value { return applyOps(m.durable, m.log) }

func (m *fsModel) sync() {
	m.durable = applyOps(m.durable, m.log)
	m.log = nil
}

// crashPoint: before a file-system call, the process may die (only inside verifrt.Crash).
func (i *interpreter) crashPoint() {
	m := i.fs()
	if !m.armed || m.crashed {
		return
	}
	if i.freeChoice(2, 'c') == 1 {
		m.crashed = true
		panic(crashSignal{})
	}
}

// crashState: the disk after a crash — durable state plus a prefix of the unsynced operations,
// with unsynced file data lagging behind metadata (see the header).
func crashState(i *interpreter, m *fsModel) map[string][]value {
	k := 0
	if len(m.log) > 0 {
		k = i.freeChoice(len(m.log)+1, 'c')
	}
	// metadata operations (create, rename, remove) reach the disk in order, but the data
	// of a file that was never synced may lag behind them (delayed allocation): of the
	// unsynced bytes written to a file, only a prefix survives, independently per file
	ops := append([]fsOp(nil), m.log[:k]...)
	writes := map[string]int{}
	var order []string
	for _, op := range ops {
		if op.kind == 'w' || op.kind == 'o' {
			if writes[op.path] == 0 {
				order = append(order, op.path)
			}
			writes[op.path]++
		}
	}
	for _, path := range order {
		keep := i.freeChoice(writes[path]+1, 'c')
		seen := 0
		var kept []fsOp
		for _, op := range ops {
			if (op.kind == 'w' || op.kind == 'o') && op.path == path {
				seen++
				if seen > keep {
					continue
				}
			}
			kept = append(kept, op)
		}
		ops = kept
	}
	return applyOps(m.durable, ops)
}

func (i *interpreter) fsError(text string) value { return i.stdErrorsNew(text) }

func initFSModels() {
	rt := func(n string) string { return rtPath + "." + n }
	bytesArg := func(i *interpreter, v value) []value { return append([]value(nil), i.asSlice(v)...) }
	// write at the handle's offset: bytes inside the current length overwrite in place, the rest
	// extend the file (h == nil: the file was just truncated, plain append)
	write := func(i *interpreter, h *fsHandle, path string, data []value) {
		m := i.fs()
		cur := -1
		if h != nil {
			cur = len(m.view()[path])
		}
		for _, b := range data {
			if h != nil && h.off < cur {
				m.log = append(m.log, fsOp{kind: 'o', path: path, b: b, idx: h.off})
			} else {
				m.log = append(m.log, fsOp{kind: 'w', path: path, b: b})
			}
			if h != nil {
				h.off++
			}
		}
	}
	externals[rt("FSInit")] = func(fr *frame, args []value) value {
		m := fr.i.fs()
		m.durable[strArg(args[0])] = bytesArg(fr.i, args[1])
		return nil
	}
	externals[rt("Crash")] = func(fr *frame, args []value) (res value) {
		i := fr.i
		m := i.fs()
		m.armed = true
		defer func() {
			m.armed = false
			if r := recover(); r != nil {
				if _, ok := r.(crashSignal); ok {
					res = true
					return
				}
				panic(r)
			}
		}()
		call(i, fr, token.NoPos, args[0], nil)
		// the machine may also lose power after the call returned
		if i.freeChoice(2, 'c') == 1 {
			m.crashed = true
			return true
		}
		return false
	}
	// FSDurable(path) -> (content, exists): what is on disk after the crash (or now, if there was
	// none: then everything issued is visible, as to a running process).
	externals[rt("FSDurable")] = func(fr *frame, args []value) value {
		i := fr.i
		m := i.fs()
		var st map[string][]value
		if m.crashed {
			st = crashState(i, m)
		} else {
			st = m.view()
		}
		v, ok := st[strArg(args[0])]
		if !ok {
			return tuple{[]value(nil), false}
		}
		return tuple{append([]value{}, v...), true}
	}
	// FSRestart: the machine comes back after a crash: what survived becomes the durable state,
	// the page cache is gone, and later saves can crash again.
	externals[rt("FSRestart")] = func(fr *frame, args []value) value {
		i := fr.i
		m := i.fs()
		if !m.crashed {
			return nil
		}
		m.durable = crashState(i, m)
		m.log = nil
		m.crashed = false
		return nil
	}
	externals[rt("FSList")] = func(fr *frame, args []value) value {
		var names []string
		for k := range fr.i.fs().view() {
			names = append(names, k)
		}
		sort.Strings(names)
		out := make([]value, len(names))
		for k, n := range names {
			out[k] = n
		}
		return out
	}
	externals["os.WriteFile"] = func(fr *frame, args []value) value {
		i := fr.i
		m := i.fs()
		path := strArg(args[0])
		i.crashPoint()
		m.log = append(m.log, fsOp{kind: 'c', path: path})
		i.crashPoint()
		write(i, nil, path, bytesArg(i, args[1]))
		i.crashPoint()
		return iface{}
	}
	externals["os.ReadFile"] = func(fr *frame, args []value) value {
		i := fr.i
		v, ok := i.fs().view()[strArg(args[0])]
		if !ok {
			return tuple{[]value(nil), i.fsError("verif fs: file does not exist")}
		}
		return tuple{append([]value{}, v...), iface{}}
	}
	externals["os.IsNotExist"] = func(fr *frame, args []value) value {
		e, ok := args[0].(iface)
		if !ok || e.t == nil {
			return false
		}
		s := fr.i.errorText(e)
		return s == "verif fs: file does not exist"
	}
	fileType := func(i *interpreter) types.Type {
		return i.prog.ImportedPackage("os").Type("File").Type()
	}
	newFile := func(i *interpreter, path string) value {
		T := fileType(i)
		p := new(value)
		*p = zero(T)
		i.side[p] = &fsHandle{path: path}
		return p
	}
	handle := func(i *interpreter, v value) *fsHandle {
		p, ok := v.(*value)
		if !ok || p == nil {
			panic(runtimeError("invalid memory address or nil pointer dereference"))
		}
		h, ok := i.side[p].(*fsHandle)
		if !ok {
			panic(unsupported("os.File not created through the file-system model"))
		}
		return h
	}
	externals["os.CreateTemp"] = func(fr *frame, args []value) value {
		i := fr.i
		m := i.fs()
		i.crashPoint()
		m.seq++
		dir, pat := strArg(args[0]), strArg(args[1])
		name := pat
		for k := 0; k < len(pat); k++ {
			if pat[k] == '*' {
				name = pat[:k] + fmt.Sprintf("%06d", m.seq) + pat[k+1:]
				break
			}
		}
		if name == pat {
			name = pat + fmt.Sprintf("%06d", m.seq)
		}
		path := name
		if dir != "" {
			if dir[len(dir)-1] == '/' {
				path = dir + name
			} else {
				path = dir + "/" + name
			}
		}
		m.log = append(m.log, fsOp{kind: 'c', path: path})
		return tuple{newFile(i, path), iface{}}
	}
	externals["os.OpenFile"] = func(fr *frame, args []value) value {
		i := fr.i
		m := i.fs()
		i.crashPoint()
		path := strArg(args[0])
		flag := int(i.concInt(args[1]))
		const oCreate, oTrunc = 0x40, 0x200
		_, exists := m.view()[path]
		if !exists && flag&oCreate == 0 {
			return tuple{(*value)(nil), i.fsError("verif fs: file does not exist")}
		}
		if !exists || flag&oTrunc != 0 {
			m.log = append(m.log, fsOp{kind: 'c', path: path})
		}
		f := newFile(i, path)
		if flag&0x400 != 0 { // O_APPEND
			handle(i, f).off = len(m.view()[path])
		}
		return tuple{f, iface{}}
	}
	externals["os.Create"] = func(fr *frame, args []value) value {
		i := fr.i
		i.crashPoint()
		path := strArg(args[0])
		i.fs().log = append(i.fs().log, fsOp{kind: 'c', path: path})
		return tuple{newFile(i, path), iface{}}
	}
	externals["(*os.File).Name"] = func(fr *frame, args []value) value { return handle(fr.i, args[0]).path }
	externals["(*os.File).Write"] = func(fr *frame, args []value) value {
		i := fr.i
		h := handle(i, args[0])
		i.crashPoint()
		data := bytesArg(i, args[1])
		write(i, h, h.path, data)
		return tuple{len(data), iface{}}
	}
	externals["(*os.File).WriteString"] = func(fr *frame, args []value) value {
		i := fr.i
		h := handle(i, args[0])
		i.crashPoint()
		s, _ := asSstr(args[1])
		write(i, h, h.path, []value(s))
		return tuple{len(s), iface{}}
	}
	externals["(*os.File).Sync"] = func(fr *frame, args []value) value {
		i := fr.i
		handle(i, args[0])
		i.crashPoint()
		i.fs().sync()
		return iface{}
	}
	externals["(*os.File).Chmod"] = func(fr *frame, args []value) value { handle(fr.i, args[0]); return iface{} }
	externals["(*os.File).Close"] = func(fr *frame, args []value) value {
		h := handle(fr.i, args[0])
		if h.closed {
			return fr.i.fsError("verif fs: file already closed")
		}
		h.closed = true
		return iface{}
	}
	externals["os.Chmod"] = func(fr *frame, args []value) value { return iface{} }
	externals["os.Rename"] = func(fr *frame, args []value) value {
		i := fr.i
		m := i.fs()
		i.crashPoint()
		from, to := strArg(args[0]), strArg(args[1])
		if _, ok := m.view()[from]; !ok {
			return i.fsError("verif fs: file does not exist")
		}
		m.log = append(m.log, fsOp{kind: 'r', path: from, to: to})
		return iface{}
	}
	externals["os.Remove"] = func(fr *frame, args []value) value {
		i := fr.i
		m := i.fs()
		i.crashPoint()
		path := strArg(args[0])
		if _, ok := m.view()[path]; !ok {
			return i.fsError("verif fs: file does not exist")
		}
		m.log = append(m.log, fsOp{kind: 'd', path: path})
		return iface{}
	}
}
