package interp

// Models for library functions that are not interpreted from their SSA
// (see DESIGN.md appendix A).

import (
	"math"
	"fmt"
	"go/token"
	"go/types"
	"strings"

	"golang.org/x/tools/go/ssa"

	"gosym/smt"
)

type externalFn func(fr *frame, args []value) value

const rtPath = "github.com/gotd/td/internal/verifrt"

var externals = map[string]externalFn{}

// noopPkgs: every function of these packages returns the zero value of its results
// (pass-through for a result whose type equals an argument's type).
var noopPkgPrefixes = []string{
	"go.uber.org/zap",
	"go.opentelemetry.io/otel",
}

// callSSARaw runs the real body of the function a model stands for (used by models that only
// take over for symbolic arguments).
func callSSARaw(i *interpreter, fr *frame, _ string, args []value) value {
	i.skipExt = fr.fn
	return callSSA(i, fr.caller, token.NoPos, fr.fn, args, nil)
}

func (i *interpreter) lookupExternal(fn *ssa.Function) externalFn {
	if i.skipExt == fn {
		i.skipExt = nil
		return nil
	}
	name := fn.String()
	if ext, ok := externals[name]; ok {
		i.res.Stubs[name] = true
		return ext
	}
	if ext := bigBridge(fn); ext != nil {
		i.res.Stubs["math/big.(*Int) methods on concrete operands run natively"] = true
		return ext
	}
	if ext := atomicPointerModel(name); ext != nil {
		i.res.Stubs["sync/atomic.Pointer[T]"] = true
		return ext
	}
	pkg := fnPkg(fn)
	if pkg == nil {
		return nil
	}
	path := pkg.Pkg.Path()
	for _, p := range noopPkgPrefixes {
		if strings.HasPrefix(path, p) {
			i.res.Stubs[p+"/* (no-op)"] = true
			return func(fr *frame, args []value) value { return noopResult(fn, args) }
		}
	}
	return nil
}

func noopResult(fn *ssa.Function, args []value) value {
	res := fn.Signature.Results()
	pick := func(t types.Type) value {
		params := fn.Signature.Params()
		off := 0
		if fn.Signature.Recv() != nil {
			off = 1
			if types.Identical(fn.Signature.Recv().Type(), t) && len(args) > 0 {
				return args[0]
			}
		}
		for j := 0; j < params.Len(); j++ {
			if types.Identical(params.At(j).Type(), t) && j+off < len(args) {
				return args[j+off]
			}
		}
		if it, ok := t.Underlying().(*types.Interface); ok && it.NumMethods() > 0 {
			if v, ok := noopImpl(fn, t, it); ok {
				return v
			}
		}
		return zero(t)
	}
	switch res.Len() {
	case 0:
		return nil
	case 1:
		return pick(res.At(0).Type())
	}
	out := make(tuple, res.Len())
	for j := range out {
		out[j] = pick(res.At(j).Type())
	}
	return out
}

func strArg(v value) string {
	switch s := v.(type) {
	case string:
		return s
	case sstr:
		return "<symbolic>"
	}
	return fmt.Sprint(v)
}

func init() {
	rt := func(n string) string { return rtPath + "." + n }
	nondet := func(k types.BasicKind) externalFn {
		return func(fr *frame, args []value) value { return fr.i.nondet(strArg(args[0]), k) }
	}
	for name, k := range map[string]types.BasicKind{
		"NondetBool": types.Bool, "NondetInt": types.Int, "NondetInt8": types.Int8, "NondetInt16": types.Int16,
		"NondetInt32": types.Int32, "NondetInt64": types.Int64, "NondetUint": types.Uint, "NondetUint8": types.Uint8,
		"NondetUint16": types.Uint16, "NondetUint32": types.Uint32, "NondetUint64": types.Uint64,
	} {
		externals[rt(name)] = nondet(k)
	}
	externals[rt("NondetBytes")] = func(fr *frame, args []value) value {
		n := int(fr.i.concInt(args[1]))
		out := make([]value, n)
		for j := range out {
			out[j] = fr.i.nondet(fmt.Sprintf("%s[%d]", strArg(args[0]), j), types.Uint8)
		}
		return out
	}
	externals[rt("Fork")] = func(fr *frame, args []value) value {
		i := fr.i
		n := i.concInt(args[1])
		v := i.nondet("fork:"+strArg(args[0]), types.Int)
		if s, ok := v.(sv); ok {
			i.addPC(i.ctx.Ult(s.t, i.ctx.BV(uint64(n), 64)))
			return int(i.concInt(v))
		}
		return v
	}
	externals[rt("Assume")] = func(fr *frame, args []value) value {
		i := fr.i
		switch c := args[0].(type) {
		case bool:
			if !c {
				panic(pathAbort{"assume", ""})
			}
		case sv:
			r, _ := i.check(c.t, false)
			if r == smt.Unsat {
				panic(pathAbort{"assume", ""})
			}
			if r == smt.Unknown {
				i.res.Unknown++
			}
			i.addPC(c.t)
		}
		return nil
	}
	externals[rt("Assert")] = func(fr *frame, args []value) value {
		fr.i.assert(args[0], strArg(args[1]))
		return nil
	}
	externals[rt("Reach")] = func(fr *frame, args []value) value {
		fr.i.res.Reached = append(fr.i.res.Reached, strArg(args[0]))
		return nil
	}
	externals[rt("Observe")] = func(fr *frame, args []value) value {
		v := args[1]
		if itf, ok := v.(iface); ok {
			v = itf.v
		}
		fr.i.observed = append(fr.i.observed, obs{strArg(args[0]), snapshot(v)})
		return nil
	}
	externals[rt("Class")] = func(fr *frame, args []value) value {
		i := fr.i
		i.classes = append(i.classes, knownClass{strArg(args[0]), i.term(args[1])})
		return nil
	}
	externals[rt("AllocLimit")] = func(fr *frame, args []value) value {
		fr.i.allocLimit = fr.i.concInt(args[0])
		return nil
	}
	externals[rt("MaxAlloc")] = func(fr *frame, args []value) value {
		return fr.i.res.MaxAlloc
	}
	externals[rt("OpaqueAlloc")] = func(fr *frame, args []value) value {
		fr.i.opaqueAlloc = fr.i.branchVal(args[0])
		return nil
	}
	externals[rt("Tier")] = func(fr *frame, args []value) value { return fr.i.cfg.Tier }
	externals[rt("Seed")] = func(fr *frame, args []value) value {
		if fr.i.cfg.Seed < 0 {
			return -fr.i.cfg.Seed
		}
		return fr.i.cfg.Seed
	}
	externals[rt("Symbolic")] = func(fr *frame, args []value) value { return fr.i.cfg.Concrete == nil }
	externals[rt("FSPath")] = func(fr *frame, args []value) value { return "/vfs/" + strArg(args[0]) }
	externals[rt("Settle")] = func(fr *frame, args []value) value { fr.i.settle(); return nil }
	externals[rt("Advance")] = func(fr *frame, args []value) value {
		fr.i.advance(fr.i.concInt(args[0]))
		return nil
	}
	externals[rt("Explore")] = func(fr *frame, args []value) value {
		fr.i.sch.explore = true
		fr.i.sch.preempt = int(fr.i.concInt(args[0]))
		return nil
	}
	externals[rt("Yield")] = func(fr *frame, args []value) value { fr.i.yield(); return nil }
	externals[rt("Bubble")] = func(fr *frame, args []value) value {
		call(fr.i, fr, token.NoPos, args[0], nil)
		return nil
	}
	externals[rt("NoPanic")] = func(fr *frame, args []value) value {
		// runs f; returns true iff it did not panic (target-level)
		i := fr.i
		ok := true
		func() {
			defer func() {
				if r := recover(); r != nil {
					if !isTargetPanic(r) {
						panic(r)
					}
					i.recordPanic(r)
					ok = false
				}
			}()
			call(i, fr, token.NoPos, args[0], nil)
		}()
		return ok
	}
	externals[rt("LastPanic")] = func(fr *frame, args []value) value { return fr.i.lastPanic }

	// --- runtime -----------------------------------------------------------------
	// package initialisers that parse embedded data with code outside the engine's reach and do not
	// influence any checked behaviour (vendored RSA keys: PEM/x509 parsing)
	// PEM/x509 parsing of vendored public keys (package initialisers of mtproto, telegram, dcs):
	// outside the engine's reach and irrelevant to every checked behaviour; yields no keys.
	externals["github.com/gotd/td/crypto.ParseRSAPublicKeys"] = func(fr *frame, args []value) value {
		return tuple{[]value(nil), iface{}}
	}
	externals["github.com/gotd/td/telegram/dcs.init#1"] = func(fr *frame, args []value) value { return nil }
	externals["github.com/gotd/td/mtproto.init#1"] = func(fr *frame, args []value) value { return nil }
	externals["github.com/gotd/td/telegram.init#1"] = func(fr *frame, args []value) value { return nil }
	// entity.setLength sets the Length field of slice[index] through reflection; direct model.
	setEntityField := func(field string) externalFn {
		return func(fr *frame, args []value) value {
		i := fr.i
		idx := int(i.concInt(args[0]))
		sl := i.asSlice(args[2])
		if idx < 0 || idx >= len(sl) {
			panic(runtimeError("index out of range (setLength)"))
		}
		itf := sl[idx].(iface)
		ptr, ok := itf.v.(*value)
		if !ok || ptr == nil {
			panic(unsupported("setLength on a non-pointer entity"))
		}
		pt, ok := itf.t.Underlying().(*types.Pointer)
		if !ok {
			panic(unsupported("setLength on a non-pointer entity type"))
		}
		st, ok := pt.Elem().Underlying().(*types.Struct)
		if !ok {
			panic(unsupported("setLength on a non-struct entity"))
		}
		for k := 0; k < st.NumFields(); k++ {
			if st.Field(k).Name() == field {
				(*ptr).(structure)[k] = args[1]
				return nil
			}
		}
		panic(targetPanic{iface{t: types.Typ[types.String], v: "reflect: call of reflect.Value.SetInt on zero Value"}})
		}
	}
	externals["github.com/gotd/td/telegram/message/entity.setLength"] = setEntityField("Length")
	externals["github.com/gotd/td/telegram/message/entity.setOffset"] = setEntityField("Offset")
	// proto.GZIP.Decode: the inflate step (klauspost/compress) is outside the engine's reach. Model:
	// the packed object is consumed and either rejected or yields 12 arbitrary bytes.
	externals["(*github.com/gotd/td/proto.GZIP).Decode"] = func(fr *frame, args []value) value {
		i := fr.i
		if i.cfg.Concrete != nil {
			return callSSARaw(i, fr, "", args)
		}
		i.res.Stubs["proto.GZIP.Decode: inflate not executed; yields an error or 12 arbitrary bytes"] = true
		okv := i.nondet("gzip:ok", types.Bool)
		i.gzipCount++
		if i.gzipCount > 2 {
			// bound on nesting: a third packed object on one path is rejected
			okv = false
		}
		if !i.branchVal(okv) {
			return i.stdErrorsNew("verif: gzip decode failed")
		}
		data := make([]value, 12)
		for j := range data {
			data[j] = i.nondet(fmt.Sprintf("gzip[%d]", j), types.Uint8)
		}
		p := args[0].(*value)
		st := (*p).(structure)
		st[0] = data
		return iface{}
	}
	// doubles travel as bit patterns: a symbolic float64 is its 64-bit pattern (no arithmetic)
	externals["math.Float64frombits"] = func(fr *frame, args []value) value {
		switch b := args[0].(type) {
		case uint64:
			return math.Float64frombits(b)
		case sv:
			return sv{b.t, types.Float64}
		}
		panic(unsupported("math.Float64frombits argument"))
	}
	externals["math.Float64bits"] = func(fr *frame, args []value) value {
		switch f := args[0].(type) {
		case float64:
			return math.Float64bits(f)
		case sv:
			return sv{f.t, types.Uint64}
		}
		panic(unsupported("math.Float64bits argument"))
	}
	externals["crypto/internal/constanttime.boolToUint8"] = func(fr *frame, args []value) value {
		switch b := args[0].(type) {
		case bool:
			if b {
				return uint8(1)
			}
			return uint8(0)
		case sv:
			return mkval(fr.i.ctx.Ite(b.t, fr.i.ctx.BV(1, 8), fr.i.ctx.BV(0, 8)), types.Uint8)
		}
		panic(unsupported("boolToUint8 argument"))
	}
	externals["runtime.Callers"] = func(fr *frame, args []value) value { return 0 }
	externals["runtime.KeepAlive"] = func(fr *frame, args []value) value { return nil }
	externals["runtime.Gosched"] = func(fr *frame, args []value) value { fr.i.yield(); return nil }
	externals["runtime.GOROOT"] = func(fr *frame, args []value) value { return "" }
	externals["runtime.GC"] = func(fr *frame, args []value) value { return nil }
	externals["runtime.SetFinalizer"] = func(fr *frame, args []value) value { return nil }
	externals["runtime.NumCPU"] = func(fr *frame, args []value) value { return 4 }
	externals["runtime.GOMAXPROCS"] = func(fr *frame, args []value) value { return 4 }

	initSyncModels()
	initFSModels()
	initDeepEqModel()
	initTimeModels()
	initErrFmtModels()
	initBytesModels()
	initCryptoModels()
}

// snapshot deep-copies v through slices (for Observe at a point in time).
func snapshot(v value) value {
	switch v := v.(type) {
	case []value:
		out := make([]value, len(v))
		for j := range v {
			out[j] = snapshot(v[j])
		}
		return out
	case structure:
		out := make(structure, len(v))
		for j := range v {
			out[j] = snapshot(v[j])
		}
		return out
	case array:
		out := make(array, len(v))
		for j := range v {
			out[j] = snapshot(v[j])
		}
		return out
	}
	return v
}

// noopImpl finds a "noop*" struct type implementing interface type t in the packages of a
// no-op library (otel) so that stubbed constructors return usable, inert objects.
func noopImpl(fn *ssa.Function, t types.Type, it *types.Interface) (value, bool) {
	var pkgs []*types.Package
	if p := fnPkg(fn); p != nil {
		pkgs = append(pkgs, p.Pkg)
		pkgs = append(pkgs, p.Pkg.Imports()...)
	}
	if n, ok := t.(*types.Named); ok && n.Obj().Pkg() != nil {
		pkgs = append(pkgs, n.Obj().Pkg())
	}
	for _, p := range pkgs {
		sc := p.Scope()
		for _, name := range sc.Names() {
			if !strings.HasPrefix(strings.ToLower(name), "noop") {
				continue
			}
			tn, ok := sc.Lookup(name).(*types.TypeName)
			if !ok {
				continue
			}
			T := tn.Type()
			if _, ok := T.Underlying().(*types.Struct); !ok {
				continue
			}
			if types.Implements(T, it) {
				return iface{t: T, v: zero(T)}, true
			}
			if types.Implements(types.NewPointer(T), it) {
				p := new(value)
				*p = zero(T)
				return iface{t: types.NewPointer(T), v: p}, true
			}
		}
	}
	return nil, false
}
