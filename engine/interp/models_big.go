package interp

// math/big bridge: every exported method of *big.Int is executed by the real math/big of the
// engine's own Go run time when all operands are concrete. (The standard library's big-number
// kernels are assembly and their Go fall-backs are far too slow to interpret at 2048 bits.)
// Symbolic operands are not supported here: a path that feeds one to a *big.Int method ends as
// unsupported.

import (
	"fmt"
	"go/types"
	"math/big"
	"reflect"

	"golang.org/x/tools/go/ssa"

	"gosym/smt"
)

// sbig is the magnitude of a non-negative big.Int whose value is a symbolic bit-vector of fixed
// width (created by SetBytes on symbolic bytes). Supported operations: Cmp, Rem/Mod by a concrete
// positive divisor, Int64/Uint64 (low word), Sign, FillBytes; everything else is unsupported.
type sbig struct {
	t *smt.Term
}

// bigOperand: native value, or symbolic term, of a *big.Int argument.
func (i *interpreter) bigOperand(v value) (n *big.Int, t *smt.Term, ok bool) {
	if p, isPtr := v.(*value); isPtr && p != nil {
		if st, isSt := (*p).(structure); isSt && len(st) == 2 {
			if sb, isSym := st[1].(sbig); isSym {
				return nil, sb.t, true
			}
		}
	}
	n, ok = bigToNative(v)
	return n, nil, ok
}

func (i *interpreter) bigTermOfWidth(n *big.Int, t *smt.Term, w int) *smt.Term {
	c := i.ctx
	if t != nil {
		if t.W < w {
			return c.ZExt(t, w)
		}
		return t
	}
	if w <= 64 {
		return c.BV(n.Uint64(), w)
	}
	return c.BigBV(n, w)
}

// symBigMethod handles a method call with at least one symbolic operand.
func (i *interpreter) symBigMethod(name string, args []value) (value, bool) {
	c := i.ctx
	ops := make([]*big.Int, len(args))
	terms := make([]*smt.Term, len(args))
	anySym := false
	for k, a := range args {
		if _, isPtr := a.(*value); !isPtr {
			continue
		}
		n, t, ok := i.bigOperand(a)
		if !ok {
			return nil, false
		}
		ops[k], terms[k] = n, t
		if t != nil {
			anySym = true
		}
	}
	if !anySym {
		return nil, false
	}
	width := func(ks ...int) int {
		w := 64
		for _, k := range ks {
			if terms[k] != nil && terms[k].W > w {
				w = terms[k].W
			}
			if ops[k] != nil && ops[k].BitLen() > w {
				w = (ops[k].BitLen() + 63) / 64 * 64
			}
		}
		return w
	}
	neg := func(k int) bool { return ops[k] != nil && ops[k].Sign() < 0 }
	switch name {
	case "Cmp":
		if neg(0) || neg(1) {
			break
		}
		w := width(0, 1)
		x, y := i.bigTermOfWidth(ops[0], terms[0], w), i.bigTermOfWidth(ops[1], terms[1], w)
		r := c.Ite(c.Ult(x, y), c.BV(^uint64(0), 64), c.Ite(c.Eq(x, y), c.BV(0, 64), c.BV(1, 64)))
		return mkval(r, types.Int), true
	case "Rem", "Mod":
		// z.Rem(x, y): x symbolic, y concrete positive
		if terms[1] == nil || ops[2] == nil || ops[2].Sign() <= 0 {
			break
		}
		w := width(1, 2)
		x, y := i.bigTermOfWidth(nil, terms[1], w), i.bigTermOfWidth(ops[2], nil, w)
		r := c.URem(x, y)
		p := args[0].(*value)
		*p = structure{false, sbig{r}}
		return args[0], true
	case "Int64":
		t := terms[0]
		return mkval(c.Extract(t, 63, 0), types.Int64), true
	case "Uint64":
		t := terms[0]
		return mkval(c.Extract(t, 63, 0), types.Uint64), true
	case "Sign":
		t := terms[0]
		var zero *smt.Term
		if t.W <= 64 {
			zero = c.BV(0, t.W)
		} else {
			zero = c.BigBV(new(big.Int), t.W)
		}
		return mkval(c.Ite(c.Eq(t, zero), c.BV(0, 64), c.BV(1, 64)), types.Int), true
	case "Set":
		p := args[0].(*value)
		*p = structure{false, sbig{terms[1]}}
		return args[0], true
	}
	panic(unsupported("math/big: (*big.Int)." + name + " on a symbolic value"))
}

func isBigIntPtr(t types.Type) bool {
	p, ok := t.(*types.Pointer)
	if !ok {
		return false
	}
	n, ok := p.Elem().(*types.Named)
	return ok && n.Obj().Pkg() != nil && n.Obj().Pkg().Path() == "math/big" && n.Obj().Name() == "Int"
}

// bigToNative reads the interpreter's representation of a *big.Int: struct{neg bool; abs []Word}.
func bigToNative(v value) (*big.Int, bool) {
	p, ok := v.(*value)
	if !ok {
		return nil, false
	}
	if p == nil {
		return nil, true
	}
	st, ok := (*p).(structure)
	if !ok || len(st) != 2 {
		return nil, false
	}
	neg, ok := st[0].(bool)
	if !ok {
		return nil, false
	}
	var words []big.Word
	switch abs := st[1].(type) {
	case []value:
		for _, w := range abs {
			u, ok := w.(uint)
			if !ok {
				return nil, false
			}
			words = append(words, big.Word(u))
		}
	case nil:
	default:
		return nil, false
	}
	n := new(big.Int).SetBits(words)
	if neg {
		n.Neg(n)
	}
	return n, true
}

func bigFromNative(n *big.Int, p *value) {
	bits := n.Bits()
	abs := make([]value, len(bits))
	for k, w := range bits {
		abs[k] = uint(w)
	}
	*p = structure{n.Sign() < 0, abs}
}

func concreteBytes(v value) ([]byte, bool) {
	sl, ok := v.([]value)
	if !ok {
		return nil, v == nil
	}
	out := make([]byte, len(sl))
	for k, e := range sl {
		b, ok := e.(uint8)
		if !ok {
			return nil, false
		}
		out[k] = b
	}
	return out, true
}

func bigBridge(fn *ssa.Function) externalFn {
	sig := fn.Signature
	if sig.Recv() == nil || !isBigIntPtr(sig.Recv().Type()) || fn.Object() == nil || !fn.Object().Exported() {
		return nil
	}
	name := fn.Name()
	switch name {
	case "Format", "Scan", "GobEncode", "GobDecode", "MarshalJSON", "UnmarshalJSON", "MarshalText", "UnmarshalText", "Rand", "Append":
		return nil
	}
	return func(fr *frame, args []value) value {
		i := fr.i
		if name == "SetBytes" {
			if sl, ok := args[1].([]value); ok {
				sym := false
				for _, e := range sl {
					if _, isSym := e.(sv); isSym {
						sym = true
					}
				}
				if sym {
					var t *smt.Term
					for _, e := range sl {
						b := i.term(e)
						if t == nil {
							t = b
						} else {
							t = i.ctx.Concat(t, b)
						}
					}
					if t.W%64 != 0 {
						t = i.ctx.ZExt(t, (t.W+63)/64*64)
					}
					p := args[0].(*value)
					*p = structure{false, sbig{t}}
					return args[0]
				}
			}
		}
		if r, ok := i.symBigMethod(name, args); ok {
			return r
		}
		natives := make([]*big.Int, len(args))
		recv, ok := bigToNative(args[0])
		if !ok {
			panic(unsupported("math/big: symbolic or malformed receiver in (*big.Int)." + name))
		}
		if recv == nil {
			panic(runtimeError("invalid memory address or nil pointer dereference"))
		}
		natives[0] = recv
		m := reflect.ValueOf(recv).MethodByName(name)
		if !m.IsValid() {
			panic(unsupported("math/big: no method " + name))
		}
		in := make([]reflect.Value, 0, len(args)-1)
		type byteArg struct {
			pos int
			bs  []byte
		}
		var byteArgs []byteArg
		params := sig.Params()
		for k := 0; k < params.Len(); k++ {
			a := args[k+1]
			pt := params.At(k).Type()
			switch {
			case isBigIntPtr(pt):
				n, ok := bigToNative(a)
				if !ok {
					panic(unsupported("math/big: symbolic or malformed argument in (*big.Int)." + name))
				}
				// aliasing: the same interpreter pointer must be the same native pointer
				for q := 0; q <= k; q++ {
					if pa, ok := args[q].(*value); ok && pa != nil && pa == a.(*value) {
						n = natives[q]
					}
				}
				natives[k+1] = n
				in = append(in, reflect.ValueOf(n))
			default:
				switch x := a.(type) {
				case int, int64, uint, uint64, bool, uint8, int32, string:
					rv := reflect.ValueOf(x)
					in = append(in, rv.Convert(m.Type().In(k)))
				case []value, nil:
					if sl, ok := pt.Underlying().(*types.Slice); ok {
						if b, ok := sl.Elem().Underlying().(*types.Basic); ok && b.Kind() == types.Uint8 {
							bs, ok := concreteBytes(a)
							if !ok {
								panic(unsupported("math/big: symbolic bytes in (*big.Int)." + name))
							}
							in = append(in, reflect.ValueOf(bs))
							byteArgs = append(byteArgs, byteArg{k + 1, bs})
							continue
						}
					}
					panic(unsupported(fmt.Sprintf("math/big: argument %d of %s", k, name)))
				default:
					panic(unsupported(fmt.Sprintf("math/big: argument %d (%T) of %s", k, a, name)))
				}
			}
		}
		out := m.Call(in)
		// byte slices handed in may have been written (FillBytes): copy back
		for _, ba := range byteArgs {
			if sl, ok := args[ba.pos].([]value); ok {
				for k := range sl {
					if k < len(ba.bs) {
						sl[k] = ba.bs[k]
					}
				}
			}
		}
		// write back every *big.Int operand (receiver and arguments may be mutated)
		for k, n := range natives {
			if n != nil {
				if p, ok := args[k].(*value); ok && p != nil {
					bigFromNative(n, p)
				}
			}
		}
		conv := func(rv reflect.Value, t types.Type) value {
			if isBigIntPtr(t) {
				n := rv.Interface().(*big.Int)
				if n == nil {
					return (*value)(nil)
				}
				for k, nat := range natives {
					if nat == n {
						return args[k]
					}
				}
				p := new(value)
				bigFromNative(n, p)
				return p
			}
			switch rv.Kind() {
			case reflect.Int:
				return int(rv.Int())
			case reflect.Int64:
				return rv.Int()
			case reflect.Uint:
				return uint(rv.Uint())
			case reflect.Uint64:
				return rv.Uint()
			case reflect.Bool:
				return rv.Bool()
			case reflect.String:
				return rv.String()
			case reflect.Slice:
				if rv.Type().Elem().Kind() == reflect.Uint8 {
					bs := rv.Bytes()
					for _, ba := range byteArgs {
						if len(bs) > 0 && len(ba.bs) >= len(bs) && &ba.bs[0] == &bs[0] {
							// the result aliases an argument (FillBytes returns buf)
							return args[ba.pos].([]value)[:len(bs)]
						}
					}
					if bs == nil {
						return []value(nil)
					}
					o := make([]value, len(bs))
					for k, b := range bs {
						o[k] = b
					}
					return o
				}
			case reflect.Int8:
				return int8(rv.Int())
			}
			panic(unsupported(fmt.Sprintf("math/big: result kind %s of %s", rv.Kind(), name)))
		}
		_ = i
		res := sig.Results()
		switch res.Len() {
		case 0:
			return nil
		case 1:
			return conv(out[0], res.At(0).Type())
		}
		tup := make(tuple, res.Len())
		for k := range tup {
			tup[k] = conv(out[k], res.At(k).Type())
		}
		return tup
	}
}

func init() {
	// crypto.DecomposePQ (Pollard's rho, tens of thousands of big-number iterations) on a concrete
	// pq: factored natively. Used by the key-exchange harnesses, which do not check factorisation.
	externals["github.com/gotd/td/crypto.DecomposePQ"] = func(fr *frame, args []value) value {
		pq, ok := bigToNative(args[0])
		if !ok || pq == nil {
			panic(unsupported("crypto.DecomposePQ on a symbolic value"))
		}
		mk := func(n *big.Int) value {
			p := new(value)
			bigFromNative(n, p)
			return p
		}
		nilErr := iface{}
		if !pq.IsUint64() || pq.Uint64() < 4 {
			panic(unsupported("crypto.DecomposePQ model: pq out of range"))
		}
		n := pq.Uint64()
		// Pollard rho (Brent) natively
		f := func(x, c uint64) uint64 {
			return new(big.Int).Mod(new(big.Int).Add(new(big.Int).Mul(new(big.Int).SetUint64(x), new(big.Int).SetUint64(x)), new(big.Int).SetUint64(c)), pq).Uint64()
		}
		var d uint64 = 1
		if n%2 == 0 {
			d = 2
		}
		for c := uint64(1); d == 1 || d == n; c++ {
			x, y := uint64(2), uint64(2)
			d = 1
			for d == 1 {
				x = f(x, c)
				y = f(f(y, c), c)
				diff := x - y
				if y > x {
					diff = y - x
				}
				if diff == 0 {
					d = n
					break
				}
				d = new(big.Int).GCD(nil, nil, new(big.Int).SetUint64(diff), pq).Uint64()
			}
		}
		p1 := new(big.Int).SetUint64(d)
		q1 := new(big.Int).Div(pq, p1)
		if p1.Cmp(q1) > 0 {
			p1, q1 = q1, p1
		}
		return tuple{mk(p1), mk(q1), nilErr}
	}
}
