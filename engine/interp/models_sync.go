package interp

import (
	"fmt"

	"golang.org/x/tools/go/ssa"

	"go/token"
	"go/types"
	"strings"
)

type mutexState struct {
	locked  bool
	readers int
}

type wgState struct{ n int64 }

func (i *interpreter) mutex(p value) *mutexState {
	addr := p.(*value)
	if addr == nil {
		panic(runtimeError("invalid memory address or nil pointer dereference"))
	}
	if s, ok := i.side[addr]; ok {
		return s.(*mutexState)
	}
	s := &mutexState{}
	i.side[addr] = s
	return s
}

func initSyncModels() {
	lock := func(fr *frame, args []value) value {
		i := fr.i
		i.yield()
		m := i.mutex(args[0])
		i.block(func() bool { return !m.locked && m.readers == 0 }, "mutex")
		m.locked = true
		return nil
	}
	unlock := func(fr *frame, args []value) value {
		i := fr.i
		m := i.mutex(args[0])
		if !m.locked {
			panic(targetPanic{iface{t: types.Typ[types.String], v: "sync: unlock of unlocked mutex"}})
		}
		m.locked = false
		i.yield()
		return nil
	}
	trylock := func(fr *frame, args []value) value {
		i := fr.i
		i.yield()
		m := i.mutex(args[0])
		if m.locked || m.readers > 0 {
			return false
		}
		m.locked = true
		return true
	}
	externals["(*sync.Mutex).Lock"] = lock
	externals["(*sync.Mutex).Unlock"] = unlock
	externals["(*sync.Mutex).TryLock"] = trylock
	externals["(*sync.RWMutex).Lock"] = lock
	externals["(*sync.RWMutex).Unlock"] = unlock
	externals["(*sync.RWMutex).TryLock"] = trylock
	externals["(*sync.RWMutex).RLock"] = func(fr *frame, args []value) value {
		i := fr.i
		i.yield()
		m := i.mutex(args[0])
		i.block(func() bool { return !m.locked }, "rwmutex.RLock")
		m.readers++
		return nil
	}
	externals["(*sync.RWMutex).RUnlock"] = func(fr *frame, args []value) value {
		i := fr.i
		m := i.mutex(args[0])
		if m.readers <= 0 {
			panic(targetPanic{iface{t: types.Typ[types.String], v: "sync: RUnlock of unlocked RWMutex"}})
		}
		m.readers--
		i.yield()
		return nil
	}
	wg := func(i *interpreter, p value) *wgState {
		addr := p.(*value)
		if s, ok := i.side[addr]; ok {
			return s.(*wgState)
		}
		s := &wgState{}
		i.side[addr] = s
		return s
	}
	externals["(*sync.WaitGroup).Add"] = func(fr *frame, args []value) value {
		w := wg(fr.i, args[0])
		w.n += fr.i.concInt(args[1])
		if w.n < 0 {
			panic(targetPanic{iface{t: types.Typ[types.String], v: "sync: negative WaitGroup counter"}})
		}
		fr.i.yield()
		return nil
	}
	externals["(*sync.WaitGroup).Done"] = func(fr *frame, args []value) value {
		w := wg(fr.i, args[0])
		w.n--
		if w.n < 0 {
			panic(targetPanic{iface{t: types.Typ[types.String], v: "sync: negative WaitGroup counter"}})
		}
		fr.i.yield()
		return nil
	}
	externals["(*sync.WaitGroup).Wait"] = func(fr *frame, args []value) value {
		w := wg(fr.i, args[0])
		fr.i.yield()
		fr.i.block(func() bool { return w.n == 0 }, "waitgroup")
		return nil
	}
	externals["(*sync.WaitGroup).Go"] = func(fr *frame, args []value) value {
		i := fr.i
		w := wg(i, args[0])
		w.n++
		f := args[1]
		i.spawn(token.NoPos, goFunc(func(i *interpreter, _ []value) value {
			defer func() { w.n-- }()
			call(i, nil, token.NoPos, f, nil)
			return nil
		}), nil)
		i.yield()
		return nil
	}
	externals["(*sync.Pool).Get"] = func(fr *frame, args []value) value {
		// Pool.Get always misses (allowed behaviour): call New if set.
		p := args[0].(*value)
		st := (*p).(structure)
		newFn := st[len(st)-1]
		switch f := newFn.(type) {
		case nil:
			return iface{}
		default:
			if fnIsNil(f) {
				return iface{}
			}
			return call(fr.i, fr, token.NoPos, f, nil)
		}
	}
	externals["(*sync.Pool).Put"] = func(fr *frame, args []value) value { return nil }

	// --- sync/atomic free functions ------------------------------------------------
	for _, ty := range []string{"Int32", "Int64", "Uint32", "Uint64", "Uintptr"} {
		ty := ty
		externals["sync/atomic.Load"+ty] = func(fr *frame, args []value) value {
			fr.i.yield()
			return *nonNil(args[0])
		}
		externals["sync/atomic.Store"+ty] = func(fr *frame, args []value) value {
			*nonNil(args[0]) = args[1]
			fr.i.yield()
			return nil
		}
		externals["sync/atomic.Swap"+ty] = func(fr *frame, args []value) value {
			p := nonNil(args[0])
			old := *p
			*p = args[1]
			fr.i.yield()
			return old
		}
		externals["sync/atomic.Add"+ty] = func(fr *frame, args []value) value {
			p := nonNil(args[0])
			*p = fr.i.binop(token.ADD, nil, *p, args[1])
			fr.i.yield()
			return *p
		}
		externals["sync/atomic.And"+ty] = func(fr *frame, args []value) value {
			p := nonNil(args[0])
			old := *p
			*p = fr.i.binop(token.AND, nil, *p, args[1])
			return old
		}
		externals["sync/atomic.Or"+ty] = func(fr *frame, args []value) value {
			p := nonNil(args[0])
			old := *p
			*p = fr.i.binop(token.OR, nil, *p, args[1])
			return old
		}
		externals["sync/atomic.CompareAndSwap"+ty] = func(fr *frame, args []value) value {
			i := fr.i
			i.yield()
			p := nonNil(args[0])
			eq := i.binop(token.EQL, atomicBasic[ty], *p, args[1])
			if i.branchVal(eq) {
				*p = args[2]
				return true
			}
			return false
		}
	}
	externals["sync/atomic.LoadPointer"] = func(fr *frame, args []value) value { return *nonNil(args[0]) }
	externals["sync/atomic.StorePointer"] = func(fr *frame, args []value) value { *nonNil(args[0]) = args[1]; return nil }

	// atomic.Value: struct{ v any }
	externals["(*sync/atomic.Value).Load"] = func(fr *frame, args []value) value {
		fr.i.yield()
		st := (*nonNil(args[0])).(structure)
		return st[0]
	}
	externals["(*sync/atomic.Value).Store"] = func(fr *frame, args []value) value {
		st := (*nonNil(args[0])).(structure)
		if args[1].(iface).t == nil {
			panic(targetPanic{iface{t: types.Typ[types.String], v: "sync/atomic: store of nil value into Value"}})
		}
		st[0] = args[1]
		fr.i.yield()
		return nil
	}
	externals["(*sync/atomic.Value).Swap"] = func(fr *frame, args []value) value {
		st := (*nonNil(args[0])).(structure)
		old := st[0]
		st[0] = args[1]
		return old
	}
	externals["(*sync/atomic.Value).CompareAndSwap"] = func(fr *frame, args []value) value {
		i := fr.i
		st := (*nonNil(args[0])).(structure)
		eq := i.eqTerm(types.NewInterfaceType(nil, nil), st[0], args[1])
		if i.branch(eq) {
			st[0] = args[2]
			return true
		}
		return false
	}
}

var atomicBasic = map[string]types.Type{"Int32": types.Typ[types.Int32], "Int64": types.Typ[types.Int64],
	"Uint32": types.Typ[types.Uint32], "Uint64": types.Typ[types.Uint64], "Uintptr": types.Typ[types.Uintptr]}

func nonNil(v value) *value {
	p := v.(*value)
	if p == nil {
		panic(runtimeError("invalid memory address or nil pointer dereference"))
	}
	return p
}

func fnIsNil(f value) bool {
	switch f := f.(type) {
	case nil:
		return true
	case *ssa.Function:
		return f == nil
	case *closure:
		return f == nil
	}
	return false
}

// atomicPointerModel handles (*sync/atomic.Pointer[T]).M for any T.
func atomicPointerModel(name string) externalFn {
	const pre = "(*sync/atomic.Pointer["
	if !strings.HasPrefix(name, pre) {
		return nil
	}
	k := strings.LastIndex(name, "].")
	if k < 0 {
		return nil
	}
	field := func(args []value) *value {
		st := (*nonNil(args[0])).(structure)
		// struct { _ [0]*T; _ noCopy; v unsafe.Pointer }
		return &st[len(st)-1]
	}
	asPtr := func(v value) value {
		if p, ok := v.(*value); ok {
			return p
		}
		return (*value)(nil)
	}
	switch name[k+2:] {
	case "Load":
		return func(fr *frame, args []value) value { fr.i.yield(); return asPtr(*field(args)) }
	case "Store":
		return func(fr *frame, args []value) value { *field(args) = args[1]; fr.i.yield(); return nil }
	case "Swap":
		return func(fr *frame, args []value) value {
			f := field(args)
			old := asPtr(*f)
			*f = args[1]
			return old
		}
	case "CompareAndSwap":
		return func(fr *frame, args []value) value {
			f := field(args)
			if asPtr(*f) == args[1].(*value) {
				*f = args[2]
				return true
			}
			return false
		}
	}
	panic(unsupported(fmt.Sprintf("atomic.Pointer method %s", name)))
}
