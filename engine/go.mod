module gosym

go 1.26.8

require golang.org/x/tools v0.50.0

require (
	github.com/go-faster/xor v1.0.0 // indirect
	golang.org/x/mod v0.41.0 // indirect
	golang.org/x/sync v0.23.0 // indirect
)

require github.com/gotd/ige v0.3.0
