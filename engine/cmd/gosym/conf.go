package main

import (
	"gosym/interp"
	"gosym/smt"
)

// concreteRun executes the harness in the engine with all inputs fixed to values.
func (r *Run) concreteRun(hr *HarnessResult, values map[string]string) *interp.PathResult {
	if hr.Cfg == nil {
		return nil
	}
	if r.confProc == nil {
		p, err := smt.Start(smt.Z3)
		if err != nil {
			return nil
		}
		r.confProc = p
	}
	cfg := *hr.Cfg
	cfg.Concrete = values
	if cfg.Concrete == nil {
		cfg.Concrete = map[string]string{}
	}
	cfg.WantWitness = false
	sess := smt.NewSession(r.confProc, smt.NewCtx(), cfg.TimeoutMS)
	return interp.RunPath(&cfg, sess, nil)
}
