package main

import (
	"encoding/json"
	"fmt"
	"go/types"
	"os"

	"gosym/interp"
	"gosym/smt"
)

// concreteRun executes the harness in the engine with all inputs fixed to values.
func (r *Run) concreteRun(hr *HarnessResult, values map[string]string) *interp.PathResult {
	if hr.Cfg == nil {
		return nil
	}
	if r.confProc == nil {
		p, err := smt.Start(smt.Z3)
		if err != nil {
			return nil
		}
		r.confProc = p
	}
	cfg := *hr.Cfg
	cfg.Concrete = values
	if cfg.Concrete == nil {
		cfg.Concrete = map[string]string{}
	}
	cfg.WantWitness = false
	sess := smt.NewSession(r.confProc, smt.NewCtx(), cfg.TimeoutMS)
	return interp.RunPath(&cfg, sess, nil)
}

// ConcreteOnly runs one harness in the engine with the concrete inputs of a replay file and
// prints what happened (development aid; also the interpreter-side replay of counterexamples).
func (r *Run) ConcreteOnly(path string) int {
	data, err := os.ReadFile(path)
	if err != nil {
		fmt.Fprintln(os.Stderr, err)
		return 2
	}
	var rf struct {
		Harness string            `json:"harness"`
		Pkg     string            `json:"pkg"`
		Values  map[string]string `json:"values"`
	}
	if err := json.Unmarshal(data, &rf); err != nil {
		fmt.Fprintln(os.Stderr, err)
		return 2
	}
	r.Only = rf.Harness
	r.activeGroups()
	if err := r.buildOverlay(); err != nil {
		fmt.Fprintln(os.Stderr, err)
		return 2
	}
	defer os.RemoveAll(r.tmp)
	if err := r.load(); err != nil {
		fmt.Fprintln(os.Stderr, err)
		return 2
	}
	fn := r.pkgs[rf.Pkg].Func(rf.Harness)
	if fn == nil {
		fmt.Fprintln(os.Stderr, "no harness", rf.Harness)
		return 2
	}
	cfg := &interp.Config{Prog: r.prog, Harness: fn, MaxSteps: 50_000_000, MaxDecisions: 100000, TimeoutMS: 10000,
		InitAllow: initAllow, Sizes: types.SizesFor("gc", "amd64"), Trace: r.Trace, Tier: r.tierNum(), Seed: int(r.Seed)}
	hr := &HarnessResult{Cfg: cfg}
	res := r.concreteRun(hr, rf.Values)
	if res == nil {
		return 2
	}
	fmt.Printf("status=%s msg=%s\nreached=%v\nfailed=%v\nobserved=%v\n", res.Status, firstLines(res.Msg, 6), res.Reached, res.ConcreteFails, res.Observed)
	if len(res.ConcreteFails) > 0 || res.Status == "panic" {
		return 1
	}
	return 0
}
