package main

import (
	"bufio"
	"bytes"
	"encoding/json"
	"fmt"
	"go/types"
	"math/rand"
	"os"
	"os/exec"
	"path/filepath"
	"sort"
	"strings"
	"sync"
	"time"

	"golang.org/x/tools/go/packages"
	"golang.org/x/tools/go/ssa"
	"golang.org/x/tools/go/ssa/ssautil"

	"gosym/interp"
	"gosym/smt"
)

type Run struct {
	Spec     *PropSpec
	Tier     string
	Seed     int64
	Workers  int
	Trace    bool
	NoNative bool
	Only     string
	Verbose  bool
	Mutant   string
	Start    time.Time

	prog    *ssa.Program
	pkgs    map[string]*ssa.Package // by repo-relative dir
	overlay map[string][]byte       // engine overlay
	ovFiles map[string]string       // virtual path -> real file (for go test -overlay)
	tmp     string
	known   map[string]KnownFinding
	fileSHA map[string]string

	solverTime map[string]float64
	mu         sync.Mutex
	confProc   *smt.Proc
}

type KnownFinding struct {
	Status   string `json:"status"`
	Property string `json:"property"`
	Finding  string `json:"finding"`
	Assert   string `json:"assert"`
	What     string `json:"what"`
	Witness  string `json:"witness"`
	Commit   string `json:"commit"`
}

type HarnessResult struct {
	Cfg          *interp.Config
	Spec         HarnessSpec
	Pkg          string
	Paths        int
	Decisions    int
	Statuses     map[string]int
	Obligations  int
	Discharged   int
	Unknown      int
	Queries      int
	Failures     []interp.Failure
	Reached      map[string]int
	Funcs        map[string]bool
	Stubs        map[string]bool
	Samples      []map[string]any
	Witnesses    []witness
	Problems     []string
	MaxAlloc     int
	Conformance  int
	ConfMismatch []string
	Wall         float64
	Truncated    bool
}

type witness struct {
	Values   map[string]string
	Reached  []string
	Observed []string
	Status   string
}

func (r *Run) tierNum() int {
	if r.Tier == "thorough" {
		return 1
	}
	return 0
}

func (r *Run) loadKnown() {
	r.known = map[string]KnownFinding{}
	f, err := os.Open(filepath.Join(verifDir, "known-findings.jsonl"))
	if err != nil {
		return
	}
	defer f.Close()
	sc := bufio.NewScanner(f)
	sc.Buffer(make([]byte, 1<<20), 1<<20)
	for sc.Scan() {
		line := strings.TrimSpace(sc.Text())
		if line == "" || strings.HasPrefix(line, "#") {
			continue
		}
		var k KnownFinding
		if json.Unmarshal([]byte(line), &k) == nil && k.Property == r.Spec.Prop && k.Status == "known" {
			r.known[k.Finding] = k
		}
	}
}

// buildOverlay prepares harness files + verifrt + generated replay tests.
func (r *Run) buildOverlay() error {
	r.overlay = map[string][]byte{}
	r.ovFiles = map[string]string{}
	tmp, err := os.MkdirTemp("", "gosym-"+r.Spec.Prop+"-")
	if err != nil {
		return err
	}
	r.tmp = tmp
	add := func(virtual, real string) error {
		data, err := os.ReadFile(real)
		if err != nil {
			return err
		}
		r.overlay[virtual] = data
		r.ovFiles[virtual] = real
		return nil
	}
	if err := add(filepath.Join(repoDir, "internal/verifrt/verifrt.go"), filepath.Join(verifDir, "rt/verifrt.go")); err != nil {
		return err
	}
	for gi, g := range r.Spec.Groups {
		for _, f := range g.Files {
			base := strings.ReplaceAll(f, "/", "_")
			v := filepath.Join(repoDir, g.Pkg, "zz_verif_"+base)
			if err := add(v, filepath.Join(verifDir, "harness", f)); err != nil {
				return err
			}
		}
		// generated native replay test
		pkgName, err := packageName(filepath.Join(repoDir, g.Pkg))
		if err != nil {
			return err
		}
		var sb strings.Builder
		fmt.Fprintf(&sb, "//go:build verif\n\npackage %s\n\nimport (\n\t\"testing\"\n\n\t\"github.com/gotd/td/internal/verifrt\"\n)\n\n", pkgName)
		sb.WriteString("func TestVerifReplay(t *testing.T) {\n\tverifrt.RunNative(t, map[string]func(){\n")
		for _, h := range g.Harnesses {
			fmt.Fprintf(&sb, "\t\t%q: %s,\n", h.Fn, h.Fn)
		}
		sb.WriteString("\t})\n}\n")
		real := filepath.Join(tmp, fmt.Sprintf("replay_%d_test.go", gi))
		if err := os.WriteFile(real, []byte(sb.String()), 0o644); err != nil {
			return err
		}
		r.ovFiles[filepath.Join(repoDir, g.Pkg, "zz_verif_replay_test.go")] = real
	}
	if r.Mutant != "" {
		kv := strings.SplitN(r.Mutant, "=", 2)
		if len(kv) == 2 {
			if err := add(filepath.Join(repoDir, kv[0]), kv[1]); err != nil {
				return err
			}
		}
	}
	ov := map[string]map[string]string{"Replace": r.ovFiles}
	data, _ := json.Marshal(ov)
	return os.WriteFile(filepath.Join(tmp, "overlay.json"), data, 0o644)
}

func packageName(dir string) (string, error) {
	ents, err := os.ReadDir(dir)
	if err != nil {
		return "", err
	}
	for _, e := range ents {
		n := e.Name()
		if !strings.HasSuffix(n, ".go") || strings.HasSuffix(n, "_test.go") {
			continue
		}
		data, err := os.ReadFile(filepath.Join(dir, n))
		if err != nil {
			continue
		}
		for _, line := range strings.Split(string(data), "\n") {
			line = strings.TrimSpace(line)
			if strings.HasPrefix(line, "package ") {
				f := strings.Fields(line)
				if len(f) >= 2 {
					return f[1], nil
				}
			}
		}
	}
	return "", fmt.Errorf("no package clause found in %s", dir)
}

func (r *Run) load() error {
	var patterns []string
	for _, g := range r.Spec.Groups {
		patterns = append(patterns, "./"+g.Pkg)
	}
	// packages needed by models even when the harness does not import them
	patterns = append(patterns, "time", "errors", "fmt", "unicode/utf8")
	cfg := &packages.Config{
		Mode:       packages.LoadAllSyntax,
		Dir:        repoDir,
		BuildFlags: []string{"-tags=verif"},
		Overlay:    r.overlay,
		Env:        append(os.Environ(), "GOFLAGS=-mod=mod", "GOPROXY=off", "GOTOOLCHAIN=local"),
	}
	pkgs, err := packages.Load(cfg, patterns...)
	if err != nil {
		return err
	}
	var errs []string
	packages.Visit(pkgs, nil, func(p *packages.Package) {
		for _, e := range p.Errors {
			if len(errs) < 20 {
				errs = append(errs, e.Error())
			}
		}
	})
	if len(errs) > 0 {
		return fmt.Errorf("package load errors:\n%s", strings.Join(errs, "\n"))
	}
	prog, spkgs := ssautil.AllPackages(pkgs, ssa.InstantiateGenerics|ssa.SanityCheckFunctions&0)
	prog.Build()
	r.prog = prog
	r.pkgs = map[string]*ssa.Package{}
	_ = spkgs
	for _, g := range r.Spec.Groups {
		want := "github.com/gotd/td/" + g.Pkg
		for _, sp := range prog.AllPackages() {
			if sp.Pkg.Path() == want {
				r.pkgs[g.Pkg] = sp
			}
		}
		if r.pkgs[g.Pkg] == nil {
			return fmt.Errorf("no SSA package for %s", g.Pkg)
		}
	}
	return nil
}

var initAllowPrefixes = []string{
	"github.com/gotd/td", "github.com/gotd/log", "github.com/gotd/neo", "github.com/gotd/ige", "github.com/go-faster/errors", "github.com/go-faster/xor",
	"go.uber.org/atomic", "go.uber.org/multierr", "golang.org/x/sync",
	"io", "bytes", "strings", "strconv", "unicode", "unicode/utf8", "unicode/utf16", "encoding/binary",
	"encoding/base64", "encoding/hex", "math", "math/bits", "context", "time", "sort", "slices", "maps", "cmp",
	"bufio", "hash", "hash/crc32", "path/filepath", "io/fs", "internal/oserror", "container/list", "container/heap", "iter", "path", "math/rand",
	"github.com/cenkalti/backoff/v4",
}

func initAllow(path string) bool {
	for _, p := range initAllowPrefixes {
		if path == p {
			return true
		}
		if strings.HasPrefix(path, p+"/") &&
			(strings.HasPrefix(p, "github.com/") || strings.HasPrefix(p, "go.uber.org") || strings.HasPrefix(p, "golang.org")) {
			return true
		}
	}
	return false
}

// activeGroups drops groups none of whose harnesses run in this tier / selection, so that their
// packages are not loaded at all.
func (r *Run) activeGroups() {
	var gs []Group
	for _, g := range r.Spec.Groups {
		var hs []HarnessSpec
		for _, h := range g.Harnesses {
			if r.Only != "" && h.Fn != r.Only {
				continue
			}
			if h.ThoroughOnly && r.Tier != "thorough" {
				continue
			}
			if len(h.Tiers) > 0 && !contains(h.Tiers, r.Tier) {
				continue
			}
			hs = append(hs, h)
		}
		if len(hs) > 0 {
			g.Harnesses = hs
			gs = append(gs, g)
		}
	}
	r.Spec.Groups = gs
}

func (r *Run) Main() int {
	r.loadKnown()
	r.activeGroups()
	if err := r.buildOverlay(); err != nil {
		fmt.Fprintln(os.Stderr, "gosym: overlay:", err)
		return 2
	}
	defer os.RemoveAll(r.tmp)
	t0 := time.Now()
	if err := r.load(); err != nil {
		fmt.Fprintln(os.Stderr, "gosym: load:", err)
		return 2
	}
	loadS := time.Since(t0).Seconds()
	if r.Verbose {
		fmt.Fprintf(os.Stderr, "loaded in %.1fs\n", loadS)
	}
	r.solverTime = map[string]float64{}
	var results []*HarnessResult
	for _, g := range r.Spec.Groups {
		for _, h := range g.Harnesses {
			if r.Only != "" && h.Fn != r.Only {
				continue
			}
			if h.ThoroughOnly && r.Tier != "thorough" {
				continue
			}
			if len(h.Tiers) > 0 && !contains(h.Tiers, r.Tier) {
				continue
			}
			fn := r.pkgs[g.Pkg].Func(h.Fn)
			if fn == nil {
				fmt.Fprintf(os.Stderr, "gosym: harness %s not found in %s\n", h.Fn, g.Pkg)
				return 2
			}
			hr := r.explore(g, h, fn)
			results = append(results, hr)
		}
	}
	// native replays + conformance
	if !r.NoNative {
		r.native(results)
	}
	return r.report(results, loadS)
}

func contains(xs []string, x string) bool {
	for _, y := range xs {
		if y == x {
			return true
		}
	}
	return false
}

func (r *Run) explore(g Group, h HarnessSpec, fn *ssa.Function) *HarnessResult {
	start := time.Now()
	if h.MaxSteps == 0 {
		h.MaxSteps = 2_000_000
	}
	if h.MaxDecisions == 0 {
		h.MaxDecisions = 400
	}
	if h.MaxPaths == 0 {
		h.MaxPaths = 20000
		if r.Tier == "thorough" {
			h.MaxPaths = 200000
		}
	}
	if h.TimeoutMS == 0 {
		h.TimeoutMS = 30000
	}
	known := map[string]bool{}
	for id := range r.known {
		known[id] = true
	}
	cfg := &interp.Config{
		Prog: r.prog, Harness: fn, MaxSteps: h.MaxSteps, MaxDecisions: h.MaxDecisions, TimeoutMS: h.TimeoutMS,
		KnownClasses: known, WantWitness: true, InitAllow: initAllow,
		Sizes: types.SizesFor("gc", "amd64"), Trace: r.Trace, Tier: r.tierNum(), Seed: int(r.Seed),
	}
	cfg.Fallback = func(c *smt.Ctx, asserts []*smt.Term, wantModel bool, syms []*smt.Term) (smt.Result, smt.Model) {
		for _, be := range []smt.Backend{smt.Z3New, smt.CVC5Int} {
			res, m, d := smt.OneShot(be, c, asserts, 60000, wantModel, syms)
			r.mu.Lock()
			r.solverTime[be.Name] += d.Seconds()
			r.mu.Unlock()
			if res != smt.Unknown {
				return res, m
			}
		}
		return smt.Unknown, nil
	}
	hr := &HarnessResult{Cfg: cfg, Spec: h, Pkg: g.Pkg, Statuses: map[string]int{}, Reached: map[string]int{}, Funcs: map[string]bool{}, Stubs: map[string]bool{}}

	var mu sync.Mutex
	work := [][]interp.Decision{nil}
	inflight := 0
	cond := sync.NewCond(&mu)
	rng := rand.New(rand.NewSource(r.Seed))
	_ = rng
	nw := r.Workers
	var wg sync.WaitGroup
	for w := 0; w < nw; w++ {
		wg.Add(1)
		go func(w int) {
			defer wg.Done()
			be := smt.Z3
			switch h.Solver {
			case "cvc5int":
				be = smt.CVC5Int
			case "z3new":
				be = smt.Z3New
			case "cvc5":
				be = smt.CVC5
			}
			proc, err := smt.Start(be)
			if err != nil {
				mu.Lock()
				hr.Problems = append(hr.Problems, "cannot start solver: "+err.Error())
				mu.Unlock()
				return
			}
			defer func() {
				r.mu.Lock()
				r.solverTime[be.Name] += proc.Time.Seconds()
				r.mu.Unlock()
				proc.Close()
			}()
			if lf := os.Getenv("GOSYM_SMTLOG"); lf != "" {
				if f, err := os.Create(fmt.Sprintf("%s.%d", lf, w)); err == nil {
					proc.Log = f
					defer f.Close()
				}
			}
			sess := smt.NewSession(proc, smt.NewCtx(), h.TimeoutMS)
			for {
				mu.Lock()
				for len(work) == 0 && inflight > 0 {
					cond.Wait()
				}
				if len(work) == 0 || hr.Paths+inflight >= h.MaxPaths {
					if len(work) > 0 {
						hr.Truncated = true
					}
					mu.Unlock()
					cond.Broadcast()
					return
				}
				p := work[len(work)-1]
				work = work[:len(work)-1]
				inflight++
				mu.Unlock()

				pstart := time.Now()
				res := interp.RunPath(cfg, sess, p)
				if os.Getenv("GOSYM_PATHLOG") == "2" {
					var kb strings.Builder
					for _, d := range res.Trail {
						fmt.Fprintf(&kb, "%c%d/%d ", d.Kind, d.Choice, d.N)
					}
					fmt.Fprintf(os.Stderr, "trail %s\n", kb.String())
				}
				if os.Getenv("GOSYM_PATHLOG") != "" {
					fmt.Fprintf(os.Stderr, "path w%d prefix=%d trail=%d status=%s steps=%d queries=%d forks=%d %.2fs %s\n", w, len(p), len(res.Trail), res.Status, res.Steps, res.Queries, len(res.Forks), time.Since(pstart).Seconds(), firstLines(res.Msg, 9))
				}
				if sess.Errors > 0 {
					res.Unknown += sess.Errors
					sess.Errors = 0
				}

				mu.Lock()
				inflight--
				hr.Paths++
				hr.Decisions += len(res.Trail)
				hr.Statuses[res.Status]++
				hr.Obligations += res.Obligations
				hr.Discharged += res.Discharged
				hr.Unknown += res.Unknown
				hr.Queries += res.Queries
				if res.MaxAlloc > hr.MaxAlloc {
					hr.MaxAlloc = res.MaxAlloc
				}
				for _, l := range res.Reached {
					hr.Reached[l]++
				}
				for f := range res.Funcs {
					hr.Funcs[f] = true
				}
				for f := range res.Stubs {
					hr.Stubs[f] = true
				}
				switch res.Status {
				case "unsupported", "limit", "internal", "infeasible":
					if len(hr.Problems) < 20 {
						hr.Problems = append(hr.Problems, res.Status+": "+firstLines(res.Msg, 12))
					}
				case "deadlock":
					if len(hr.Problems) < 20 {
						hr.Problems = append(hr.Problems, "deadlock: "+res.Msg)
					}
				}
				for _, f := range res.Failures {
					if countID(hr.Failures, f.ID, f.Known) < 3 {
						hr.Failures = append(hr.Failures, f)
					}
				}
				if res.Witness != nil && (res.Status == "ok" || res.Status == "panic") {
					if len(hr.Witnesses) < 24 {
						hr.Witnesses = append(hr.Witnesses, witness{res.Witness, res.Reached, res.Observed, res.Status})
					}
					if len(hr.Samples) < 3 {
						hr.Samples = append(hr.Samples, map[string]any{"harness": h.Fn, "inputs": res.Witness, "reached": res.Reached, "decisions": len(res.Trail), "status": res.Status})
					}
				}
				work = append(work, res.Forks...)
				mu.Unlock()
				cond.Broadcast()
				if r.Verbose && hr.Paths%200 == 0 {
					fmt.Fprintf(os.Stderr, "  %s: %d paths, %d queued\n", h.Fn, hr.Paths, len(work))
				}
			}
		}(w)
	}
	wg.Wait()
	if len(work) > 0 {
		hr.Truncated = true
	}
	hr.Wall = time.Since(start).Seconds()
	// vacuity
	for _, l := range h.Reach {
		if hr.Reached[l] == 0 {
			hr.Problems = append(hr.Problems, "vacuity: label "+l+" never reached")
		}
	}
	if hr.Truncated {
		hr.Problems = append(hr.Problems, fmt.Sprintf("unwinding: path budget %d exhausted", h.MaxPaths))
	}
	if r.Verbose {
		fmt.Fprintf(os.Stderr, "%s: paths=%d statuses=%v obligations=%d discharged=%d unknown=%d failures=%d wall=%.1fs\n",
			h.Fn, hr.Paths, hr.Statuses, hr.Obligations, hr.Discharged, hr.Unknown, len(hr.Failures), hr.Wall)
		for _, p := range hr.Problems {
			fmt.Fprintln(os.Stderr, "  problem:", p)
		}
	}
	return hr
}

func firstLines(s string, n int) string {
	lines := strings.Split(s, "\n")
	if len(lines) > n {
		lines = lines[:n]
	}
	return strings.Join(lines, "\n")
}

func countID(fs []interp.Failure, id, known string) int {
	n := 0
	for _, f := range fs {
		if f.ID == id && f.Known == known {
			n++
		}
	}
	return n
}

// --- native replay ------------------------------------------------------------------------

type nativeOut struct {
	Asserts  []string
	Reached  []string
	Observed []string
	Panic    string
	Done     bool
	Assume   bool
	Raw      string
}

func (r *Run) buildNative(pkgDir string) (string, error) {
	bin := filepath.Join(r.tmp, strings.ReplaceAll(pkgDir, "/", "_")+".test")
	if _, err := os.Stat(bin); err == nil {
		return bin, nil
	}
	cmd := exec.Command("go", "test", "-c", "-tags", "verif", "-vet=off", "-overlay", filepath.Join(r.tmp, "overlay.json"), "-o", bin, "./"+pkgDir)
	cmd.Dir = repoDir
	cmd.Env = nativeEnv()
	outp, err := cmd.CombinedOutput()
	if err != nil {
		return "", fmt.Errorf("native build failed: %v\n%s", err, outp)
	}
	return bin, nil
}

// nativeEnv: the repo's own toolchain (go.mod says go 1.25: auto-switch from the default go).
func nativeEnv() []string {
	var env []string
	for _, e := range os.Environ() {
		if strings.HasPrefix(e, "GOTOOLCHAIN=") || strings.HasPrefix(e, "PATH=") || strings.HasPrefix(e, "GOFLAGS=") {
			continue
		}
		env = append(env, e)
	}
	path := os.Getenv("VERIF_NATIVE_PATH")
	if path == "" {
		path = os.Getenv("PATH")
	}
	env = append(env, "PATH="+path, "GOFLAGS=-mod=mod", "GOPROXY=off")
	if tc := os.Getenv("VERIF_NATIVE_TOOLCHAIN"); tc != "" {
		env = append(env, "GOTOOLCHAIN="+tc)
	}
	return env
}

func (r *Run) runNative(bin, pkgDir, harness string, values map[string]string, file string) (*nativeOut, error) {
	rf := map[string]any{"harness": harness, "tier": r.tierNum(), "seed": int(r.Seed), "values": values, "property": r.Spec.Prop, "pkg": pkgDir}
	data, _ := json.MarshalIndent(rf, "", " ")
	if err := os.WriteFile(file, data, 0o644); err != nil {
		return nil, err
	}
	cmd := exec.Command(bin, "-test.run", "^TestVerifReplay$", "-test.v", "-test.timeout", "120s")
	cmd.Dir = filepath.Join(repoDir, pkgDir)
	cmd.Env = append(os.Environ(), "VERIF_REPLAY="+file)
	var buf bytes.Buffer
	cmd.Stdout = &buf
	cmd.Stderr = &buf
	err := cmd.Run()
	no := &nativeOut{Raw: buf.String()}
	for _, line := range strings.Split(buf.String(), "\n") {
		k := strings.Index(line, "VERIF:")
		if k < 0 {
			continue
		}
		line = line[k+6:]
		switch {
		case strings.HasPrefix(line, "ASSERT "):
			no.Asserts = append(no.Asserts, strings.TrimPrefix(line, "ASSERT "))
		case strings.HasPrefix(line, "REACH "):
			no.Reached = append(no.Reached, strings.TrimPrefix(line, "REACH "))
		case strings.HasPrefix(line, "OBSERVE "):
			no.Observed = append(no.Observed, strings.TrimPrefix(line, "OBSERVE "))
		case strings.HasPrefix(line, "PANIC "):
			no.Panic = strings.TrimPrefix(line, "PANIC ")
		case line == "DONE":
			no.Done = true
		case line == "ASSUME-FALSE":
			no.Assume = true
		case line == "TIMEOUT":
			no.Panic = "TIMEOUT"
		}
	}
	if err != nil && !no.Done && no.Panic == "" && !no.Assume {
		// crashed hard (fatal error, os.Exit...)
		no.Panic = "process failed: " + err.Error() + " " + lastLines(buf.String(), 5)
	}
	return no, nil
}

func lastLines(s string, n int) string {
	lines := strings.Split(strings.TrimSpace(s), "\n")
	if len(lines) > n {
		lines = lines[len(lines)-n:]
	}
	return strings.Join(lines, " | ")
}

func (r *Run) native(results []*HarnessResult) {
	replayDir := filepath.Join(verifDir, "replays")
	if d := os.Getenv("GOSYM_REPLAYDIR"); d != "" {
		replayDir = d
	}
	os.MkdirAll(replayDir, 0o755)
	for _, hr := range results {
		need := len(hr.Failures) > 0 || len(hr.Witnesses) > 0
		if !need {
			continue
		}
		bin, err := r.buildNative(hr.Pkg)
		if err != nil {
			hr.Problems = append(hr.Problems, err.Error())
			continue
		}
		for k := range hr.Failures {
			f := &hr.Failures[k]
			file := filepath.Join(replayDir, fmt.Sprintf("%s-%s-%d.json", r.Spec.Prop, hr.Spec.Fn, k))
			no, err := r.runNative(bin, hr.Pkg, hr.Spec.Fn, f.Model, file)
			if err != nil {
				hr.Problems = append(hr.Problems, "native replay: "+err.Error())
				continue
			}
			f.Replay = file
			if hasKind(f.Path, 'c') {
				// the counterexample depends on where the process crashes between two file-system
				// calls: no native run can stop there. It is replayed in the interpreter instead,
				// on the real code, with the recorded crash decisions and the concrete inputs.
				cfg := *hr.Cfg
				var free []interp.Decision
				for _, d := range f.Path {
					if d.Kind == 'c' || d.Kind == 's' || d.Kind == 'x' {
						free = append(free, d)
					}
				}
				cfg.FreeChoices = free
				hr2 := &HarnessResult{Cfg: &cfg}
				cres := r.concreteRun(hr2, f.Model)
				f.NativeOK = cres != nil && contains(cres.ConcreteFails, f.ID)
				f.Msg += " [replayed in the interpreter with the recorded crash point: a native run cannot stop between two system calls]"
				if !f.NativeOK {
					f.Spur = true
				}
				continue
			}
			switch {
			case f.ID == "panic":
				f.NativeOK = no.Panic != ""
			default:
				f.NativeOK = contains(no.Asserts, f.ID)
			}
			if !f.NativeOK {
				f.Spur = true
				if r.Verbose {
					fmt.Fprintf(os.Stderr, "spurious %s: native output:\n%s\n", f.ID, no.Raw)
				}
			}
		}
		// conformance: witnesses of ok paths must behave identically natively
		max := 6
		if r.Tier == "thorough" {
			max = 24
		}
		for k, w := range hr.Witnesses {
			if k >= max {
				break
			}
			file := filepath.Join(r.tmp, fmt.Sprintf("wit-%s-%d.json", hr.Spec.Fn, k))
			no, err := r.runNative(bin, hr.Pkg, hr.Spec.Fn, w.Values, file)
			if err != nil {
				continue
			}
			// the engine re-runs the same inputs concretely (real hashes/ciphers on both sides)
			cres := r.concreteRun(hr, w.Values)
			if cres == nil {
				continue
			}
			hr.Conformance++
			var diff []string
			if fmt.Sprint(no.Reached) != fmt.Sprint(cres.Reached) {
				diff = append(diff, fmt.Sprintf("reach engine=%v native=%v", cres.Reached, no.Reached))
			}
			if fmt.Sprint(no.Observed) != fmt.Sprint(cres.Observed) {
				diff = append(diff, fmt.Sprintf("observe engine=%v native=%v", cres.Observed, no.Observed))
			}
			if fmt.Sprint(no.Asserts) != fmt.Sprint(cres.ConcreteFails) && !(cres.Status == "panic") {
				diff = append(diff, fmt.Sprintf("failed asserts engine=%v native=%v", cres.ConcreteFails, no.Asserts))
			}
			if (no.Panic != "") != (cres.Status == "panic") {
				diff = append(diff, fmt.Sprintf("panic engine=%q native=%q", cres.Msg, no.Panic))
			}
			if no.Assume != (cres.Status == "assume") {
				diff = append(diff, fmt.Sprintf("assume-false engine=%v native=%v", cres.Status == "assume", no.Assume))
			}
			if cres.Status != "ok" && cres.Status != "panic" && cres.Status != "assume" && cres.Status != "cut" {
				diff = append(diff, "engine concrete run status "+cres.Status+": "+firstLines(cres.Msg, 3))
			}
			if len(diff) > 0 {
				vs := fmt.Sprint(w.Values)
				if len(vs) > 300 {
					vs = vs[:300] + "…"
				}
				hr.ConfMismatch = append(hr.ConfMismatch, fmt.Sprintf("witness %s: %s", vs, strings.Join(diff, "; ")))
			}
		}
	}
}

func (r *Run) ReplayOnly(path string) int {
	data, err := os.ReadFile(path)
	if err != nil {
		fmt.Fprintln(os.Stderr, err)
		return 2
	}
	var rf struct {
		Harness string            `json:"harness"`
		Pkg     string            `json:"pkg"`
		Values  map[string]string `json:"values"`
	}
	if err := json.Unmarshal(data, &rf); err != nil {
		fmt.Fprintln(os.Stderr, err)
		return 2
	}
	if err := r.buildOverlay(); err != nil {
		fmt.Fprintln(os.Stderr, err)
		return 2
	}
	defer os.RemoveAll(r.tmp)
	bin, err := r.buildNative(rf.Pkg)
	if err != nil {
		fmt.Fprintln(os.Stderr, err)
		return 2
	}
	no, err := r.runNative(bin, rf.Pkg, rf.Harness, rf.Values, filepath.Join(r.tmp, "replay.json"))
	if err != nil {
		fmt.Fprintln(os.Stderr, err)
		return 2
	}
	fmt.Print(no.Raw)
	if len(no.Asserts) > 0 || no.Panic != "" {
		fmt.Printf("VIOLATION property=%s replay=%s\n", r.Spec.Prop, path)
		return 1
	}
	return 0
}

// --- report ---------------------------------------------------------------------------------

func (r *Run) report(results []*HarnessResult, loadS float64) int {
	exit := 0
	var violations, knownSeen []string
	totalPaths, totalDec, obligations, discharged, unknown, queries, conf := 0, 0, 0, 0, 0, 0, 0
	var problems []string
	funcs := map[string]bool{}
	stubs := map[string]bool{}
	var samples []any
	var bounds []string
	replAttempt, replOK := 0, 0
	perHarness := []map[string]any{}
	for _, hr := range results {
		totalPaths += hr.Paths
		totalDec += hr.Decisions
		obligations += hr.Obligations
		discharged += hr.Discharged
		unknown += hr.Unknown
		queries += hr.Queries
		conf += hr.Conformance
		for f := range hr.Funcs {
			funcs[f] = true
		}
		for f := range hr.Stubs {
			stubs[f] = true
		}
		for _, s := range hr.Samples {
			samples = append(samples, s)
		}
		if hr.Spec.Bounds != "" {
			bounds = append(bounds, hr.Spec.Fn+": "+hr.Spec.Bounds)
		}
		for _, p := range hr.Problems {
			problems = append(problems, hr.Spec.Fn+": "+p)
		}
		for _, m := range hr.ConfMismatch {
			problems = append(problems, hr.Spec.Fn+": conformance mismatch: "+m)
		}
		if hr.Unknown > 0 {
			problems = append(problems, fmt.Sprintf("%s: %d solver answers unknown/timeout", hr.Spec.Fn, hr.Unknown))
		}
		for _, f := range hr.Failures {
			if !r.NoNative {
				replAttempt++
			}
			if f.Spur {
				problems = append(problems, fmt.Sprintf("%s: counterexample for %s did not reproduce natively (spurious; model or engine imprecise) replay=%s", hr.Spec.Fn, f.ID, f.Replay))
				continue
			}
			if !r.NoNative {
				replOK++
			}
			if f.Known != "" {
				knownSeen = append(knownSeen, f.Known+"|"+f.ID)
				continue
			}
			violations = append(violations, fmt.Sprintf("VIOLATION property=%s replay=%s", r.Spec.Prop, f.Replay)+fmt.Sprintf("  # harness=%s assert=%s %s", hr.Spec.Fn, f.ID, f.Msg))
		}
		perHarness = append(perHarness, map[string]any{"harness": hr.Spec.Fn, "paths": hr.Paths, "decisions": hr.Decisions, "statuses": hr.Statuses,
			"obligations": hr.Obligations, "discharged": hr.Discharged, "reached": hr.Reached, "wall_s": round2(hr.Wall), "conformance_runs": hr.Conformance, "max_alloc_elems": hr.MaxAlloc})
	}
	seenKF := map[string]bool{}
	for _, k := range knownSeen {
		id := strings.SplitN(k, "|", 2)[0]
		for _, one := range strings.Split(id, ",") {
			if seenKF[one] {
				continue
			}
			seenKF[one] = true
			fmt.Printf("KNOWN-FINDING: property=%s %s: %s\n", r.Spec.Prop, one, r.known[one].What)
		}
	}
	seenV := map[string]bool{}
	for _, v := range violations {
		if !seenV[v] {
			seenV[v] = true
			fmt.Println(v)
		}
	}
	if len(violations) > 0 {
		exit = 1
	} else if len(problems) > 0 {
		exit = 2
	}
	for _, p := range problems {
		fmt.Fprintln(os.Stderr, "INCONCLUSIVE:", p)
	}
	var fl []string
	for f := range funcs {
		fl = append(fl, f)
	}
	sort.Strings(fl)
	var sl []string
	for f := range stubs {
		sl = append(sl, f)
	}
	sort.Strings(sl)
	if len(samples) == 0 {
		samples = append(samples, map[string]any{"note": "no completed path produced a witness"})
	}
	assumptions := append([]string{}, r.Spec.Assumptions...)
	assumptions = append(assumptions, "models/stubs used: "+strings.Join(sl, ", "))
	assumptions = append(assumptions, "bounded claim: holds for all inputs within the stated bounds only; solver verdicts from z3 4.8.12 (fallback z3 5.1.0, cvc5 bv-as-int)")
	ev := map[string]any{
		"property_id": r.Spec.Prop,
		"tier":        r.Tier,
		"seed":        r.Seed,
		"level":       "model_checking",
		"coverage": map[string]any{
			"states":                        max1(totalPaths),
			"transitions":                   max1(totalDec),
			"traces_validated_against_impl": conf,
			"samples":                       samples,
			"obligations":                   obligations,
			"discharged":                    discharged,
			"functions_encoded":             fl,
			"functions_encoded_count":       len(fl),
			"bounds":                        bounds,
			"outside_claim":                 r.Spec.Outside,
			"queries":                       map[string]any{"total": queries, "unknown": unknown},
			"solver_time_s":                 r.solverTime,
			"load_s":                        round2(loadS),
			"per_harness":                   perHarness,
			"problems":                      problems,
			"known_findings_seen":           keys(seenKF),
			"replays":                       map[string]int{"attempted": replAttempt, "reproduced": replOK},
			"explanation":                   "bounded symbolic execution of the real go/ssa of /repo with an SMT solver deciding every branch and assertion; states=paths completed, transitions=decisions taken",
		},
		"assumptions": assumptions,
		"wall_s":      round2(time.Since(r.Start).Seconds()),
		"violations":  len(violations),
	}
	data, _ := json.MarshalIndent(ev, "", " ")
	os.MkdirAll(filepath.Join(verifDir, "evidence"), 0o755)
	if r.Only == "" && os.Getenv("GOSYM_NOEVIDENCE") == "" {
		os.WriteFile(filepath.Join(verifDir, "evidence", r.Spec.Prop+".json"), data, 0o644)
	}
	fmt.Fprintf(os.Stderr, "%s %s: paths=%d obligations=%d discharged=%d unknown=%d violations=%d known=%d problems=%d wall=%.1fs exit=%d\n",
		r.Spec.Prop, r.Tier, totalPaths, obligations, discharged, unknown, len(violations), len(seenKF), len(problems), time.Since(r.Start).Seconds(), exit)
	return exit
}

func keys(m map[string]bool) []string {
	out := []string{}
	for k := range m {
		out = append(out, k)
	}
	sort.Strings(out)
	return out
}

func max1(n int) int {
	if n < 1 {
		return 1
	}
	return n
}

func round2(f float64) float64 { return float64(int(f*100)) / 100 }

func hasKind(path []interp.Decision, k byte) bool {
	for _, d := range path {
		if d.Kind == k {
			return true
		}
	}
	return false
}
