// gosym: bounded symbolic execution of gotd/td harnesses (see /verif/DESIGN.md).
package main

import (
	"encoding/json"
	"flag"
	"fmt"
	"os"
	"path/filepath"
	"sort"
	"strings"
	"time"
)

type HarnessSpec struct {
	Fn           string   `json:"fn"`
	Tiers        []string `json:"tiers"`         // which tiers run this harness (default both)
	MaxSteps     int      `json:"max_steps"`     // per path
	MaxDecisions int      `json:"max_decisions"` // per path
	MaxPaths     int      `json:"max_paths"`
	TimeoutMS    int      `json:"timeout_ms"` // per query
	Reach        []string `json:"reach"`      // labels that must be reached (vacuity guard)
	Bounds       string   `json:"bounds"`
	ThoroughOnly bool     `json:"thorough_only"`
	Solver       string   `json:"solver"` // "" = z3; "cvc5int" = cvc5 --solve-bv-as-int=sum; "z3new"
}

type Group struct {
	Pkg       string        `json:"pkg"`   // directory relative to /repo
	Files     []string      `json:"files"` // relative to /verif/harness
	Harnesses []HarnessSpec `json:"harnesses"`
}

type PropSpec struct {
	Prop        string   `json:"prop"`
	Groups      []Group  `json:"groups"`
	Assumptions []string `json:"assumptions"`
	Outside     []string `json:"outside"`
}

var (
	verifDir = "/verif"
	repoDir  = "/repo"
)

func main() {
	prop := flag.String("prop", "", "property id (Cnn)")
	tier := flag.String("tier", "quick", "quick|thorough")
	only := flag.String("harness", "", "run only this harness function")
	replay := flag.String("replay", "", "replay file: run natively only")
	concrete := flag.String("concrete", "", "replay file: run in the engine with these concrete inputs (development)")
	workers := flag.Int("workers", 16, "parallel workers")
	trace := flag.Bool("trace", false, "trace interpreter")
	noNative := flag.Bool("no-native", false, "skip native replays/conformance (development)")
	mutant := flag.String("mutant", "", "overlay: repo-relative-path=replacement-file (development)")
	verbose := flag.Bool("v", false, "verbose")
	flag.Parse()
	if d := os.Getenv("VERIF_DIR"); d != "" {
		verifDir = d
	}
	if d := os.Getenv("VERIF_REPO"); d != "" {
		repoDir = d
	}
	if t := os.Getenv("VERIF_TIER"); t != "" && *tier == "" {
		*tier = t
	}
	seed := int64(1)
	if s := os.Getenv("VERIF_SEED"); s != "" {
		fmt.Sscan(s, &seed)
	}
	spec, err := loadSpec(*prop)
	if err != nil {
		fmt.Fprintln(os.Stderr, "gosym:", err)
		os.Exit(2)
	}
	r := &Run{Spec: spec, Tier: *tier, Seed: seed, Workers: *workers, Trace: *trace, NoNative: *noNative,
		Only: *only, Verbose: *verbose, Mutant: *mutant, Start: time.Now()}
	if *replay != "" {
		os.Exit(r.ReplayOnly(*replay))
	}
	if *concrete != "" {
		os.Exit(r.ConcreteOnly(*concrete))
	}
	os.Exit(r.Main())
}

func loadSpec(prop string) (*PropSpec, error) {
	data, err := os.ReadFile(filepath.Join(verifDir, "harness", "index.json"))
	if err != nil {
		return nil, err
	}
	var all []PropSpec
	if err := json.Unmarshal(data, &all); err != nil {
		return nil, fmt.Errorf("index.json: %w", err)
	}
	for i := range all {
		if all[i].Prop == prop {
			return &all[i], nil
		}
	}
	var ids []string
	for _, s := range all {
		ids = append(ids, s.Prop)
	}
	sort.Strings(ids)
	return nil, fmt.Errorf("no harness spec for %q (have %s)", prop, strings.Join(ids, " "))
}
