//go:build verif

package entity

import (
	"github.com/gotd/td/internal/verifrt"
	"github.com/gotd/td/tg"
)

// VerifC36_less: entitySorter.Less is exactly "offset ascending, then length descending".
// Bound: none beyond int32-range offsets/lengths (TL ints); two entities.
func VerifC36_less() {
	o1, l1 := verifrt.NondetInt("o1"), verifrt.NondetInt("l1")
	o2, l2 := verifrt.NondetInt("o2"), verifrt.NondetInt("l2")
	verifrt.Assume(o1 >= 0 && o1 < 1<<31 && l1 >= 0 && l1 < 1<<31)
	verifrt.Assume(o2 >= 0 && o2 < 1<<31 && l2 >= 0 && l2 < 1<<31)
	e := entitySorter{
		&tg.MessageEntityBold{Offset: o1, Length: l1},
		&tg.MessageEntityItalic{Offset: o2, Length: l2},
	}
	got := e.Less(0, 1)
	want := o1 < o2 || (o1 == o2 && l1 > l2)
	// known finding C36-less-no-tie: Less has no tie condition, so a longer entity at a
	// larger offset compares as less.
	verifrt.Class("C36-less-no-tie", o1 > o2 && l1 > l2)
	verifrt.Assert(got == want, "C36.less.key")
	verifrt.Reach("C36.less.end")
}

// VerifC36_sort: SortEntities output is ordered by (offset asc, length desc) and is a permutation.
// Bound: 3 entities.
func VerifC36_sort() {
	const n = 3
	var off, ln [n]int
	es := make([]tg.MessageEntityClass, n)
	for i := 0; i < n; i++ {
		off[i], ln[i] = verifrt.NondetInt("off"), verifrt.NondetInt("len")
		verifrt.Assume(off[i] >= 0 && off[i] < 1<<31 && ln[i] >= 0 && ln[i] < 1<<31)
		es[i] = &tg.MessageEntityBold{Offset: off[i], Length: ln[i]}
	}
	// known finding C36-less-no-tie manifests only if some entity is both further right and longer
	// than another one.
	trig := false
	for i := 0; i < n; i++ {
		for j := 0; j < n; j++ {
			if off[i] > off[j] && ln[i] > ln[j] {
				trig = true
			}
		}
	}
	verifrt.Class("C36-less-no-tie", trig)
	SortEntities(es)
	for i := 0; i+1 < n; i++ {
		a, b := es[i], es[i+1]
		ok := a.GetOffset() < b.GetOffset() || (a.GetOffset() == b.GetOffset() && a.GetLength() >= b.GetLength())
		verifrt.Assert(ok, "C36.sort.ordered")
	}
	verifrt.Reach("C36.sort.end")
}

// VerifC36_complete: builder-produced lists. A script of 4 (quick) / 5 (thorough) steps, each one
// of: plain text, an italic block, a code block, a space-only plain block, opening a token, or
// applying the most recently opened token as bold (the way the HTML/Markdown parsers add the
// outer entity after the inner ones). Claim: Builder.Complete returns the entities ordered by
// ascending offset and, for equal offsets, by descending length.
func VerifC36_complete() {
	steps := 4
	if verifrt.Tier() == 1 {
		steps = 5
	}
	b := &Builder{}
	var open []Token
	for s := 0; s < steps; s++ {
		switch verifrt.Fork("step", 6) {
		case 0:
			b.Plain("ab ")
		case 1:
			b.Italic("cd")
		case 2:
			b.Code("e f")
		case 3:
			b.Plain(" ")
		case 4:
			open = append(open, b.Token())
		case 5:
			if len(open) > 0 {
				open[len(open)-1].Apply(b, Bold())
				open = open[:len(open)-1]
			}
		}
	}
	_, es := b.Complete()
	trig := false
	for i := range es {
		for j := range es {
			if es[i].GetOffset() > es[j].GetOffset() && es[i].GetLength() > es[j].GetLength() {
				trig = true
			}
		}
	}
	verifrt.Class("C36-less-no-tie", trig)
	for i := 0; i+1 < len(es); i++ {
		a, c := es[i], es[i+1]
		ok := a.GetOffset() < c.GetOffset() || (a.GetOffset() == c.GetOffset() && a.GetLength() >= c.GetLength())
		verifrt.Assert(ok, "C36.complete.ordered")
	}
	if len(es) >= 2 {
		verifrt.Reach("C36.complete.several")
	}
	verifrt.Reach("C36.complete.end")
}
