//go:build verif

package exchange

import (
	"context"
	"time"

	"github.com/gotd/td/internal/verifrt"
)

// VerifC12_stall: the real client flow against the repository's server flow over an in-memory
// transport; the server goes silent from its k-th message on (k = 1: ResPQ, 2: server DH params,
// 3: DH gen result; 4: never). The caller's context has no deadline.
// Claims: with a silent server the client's Run fails no later than the configured exchange
// timeout after the step started (the moment its last request went out); with a responsive
// server the exchange completes and both sides hold the same key.
func VerifC12_stall() {
	verifrt.Bubble(func() {
		timeout := []time.Duration{time.Second, 30 * time.Second}[verifrt.Fork("timeout", 2)]
		silentFrom := 1 + verifrt.Fork("silent", 4)
		temp := verifrt.NondetBool("temp")
		p := newVerifPipe()
		p.onServer = func(n int, data []byte) []byte {
			if n >= silentFrom {
				return nil
			}
			return data
		}
		skew := time.Duration(verifrt.Fork("skew", 3)-1) * time.Hour // client clock -1h / 0 / +1h off the timer clock
		r := verifStartSkew(context.Background(), timeout, temp, p, skew)
		if silentFrom == 4 {
			verifrt.Assert(r.clientDone && r.clientErr == nil, "C12.stall.completes")
			verifrt.Assert(r.serverDone && r.serverErr == nil && r.serverKey == r.result.AuthKey.Value, "C12.stall.samekey")
			verifrt.Reach("C12.stall.completed")
			return
		}
		verifrt.Assert(!r.clientDone, "C12.stall.waits")
		verifrt.Assert(p.clientSends == silentFrom, "C12.stall.step")
		stepStart := p.lastClientSend
		verifrt.Advance(timeout - time.Since(stepStart))
		verifrt.Assert(r.clientDone && r.clientErr != nil, "C12.stall.bounded")
		if r.clientDone {
			verifrt.Assert(time.Since(stepStart) <= timeout, "C12.stall.deadline")
		}
		// let the server side time out too, so that nothing is left running
		verifrt.Advance(24 * time.Hour)
		verifrt.Reach("C12.stall.stalled")
	})
}
