//go:build verif

package mtproto

import (
	"context"
	"time"

	"github.com/gotd/td/exchange"
	"github.com/gotd/td/internal/verifrt"
	"github.com/gotd/td/transport"
)

// VerifC12_options: the exchange timeout a connection uses is the configured one: for every
// ExchangeTimeout and every DialTimeout (arbitrary durations), mtproto.New keeps
// Options.ExchangeTimeout (the package default when unset) as the timeout handed to every key
// exchange it runs (initial connect with and without PFS, key regeneration: all go through
// Conn.runExchange, which passes c.exchangeTimeout).
func VerifC12_options() {
	ex := time.Duration(verifrt.NondetInt64("exchange"))
	dial := time.Duration(verifrt.NondetInt64("dial"))
	verifrt.Assume(ex >= 0 && dial >= 0)
	c := New(func(ctx context.Context) (transport.Conn, error) { return nil, nil }, Options{
		ExchangeTimeout: ex, DialTimeout: dial, PublicKeys: []exchange.PublicKey{{}},
	})
	want := ex
	if ex == 0 {
		want = exchange.DefaultTimeout
	}
	verifrt.Assert(c.exchangeTimeout == want, "C12.options.exchangetimeout")
	verifrt.Reach("C12.options.end")
}
