//go:build verif

package updates

import (
	"context"

	"go.opentelemetry.io/otel/trace/noop"

	"github.com/gotd/td/internal/verifrt"
	"github.com/gotd/td/telegram"
	"github.com/gotd/td/tg"
)

type c01item struct{ start, end int }

// c01reach: how far the sequence is covered without a hole, starting at `from`: the union of the
// given ranges (delivered updates and affected ranges may overlap), chained while contiguous.
func c01reach(from int, items []c01item) int {
	pos := from
	for range items {
		for _, it := range items {
			if it.start <= pos && it.end > pos {
				pos = it.end
			}
		}
	}
	return pos
}

type c01store struct {
	*memStorage
	chPts []int
}

func (s *c01store) SetChannelPts(ctx context.Context, userID, channelID int64, pts int) error {
	s.chPts = append(s.chPts, pts)
	return s.memStorage.SetChannelPts(ctx, userID, channelID, pts)
}

// VerifC01_channel: the same claims as VerifC01_box, but through the real wiring of a channel's
// pts sequence: channelState.handleUpdate (pts/pts_count taken from real tg updates by
// tg.IsChannelPtsUpdate), channelState.handleAffected (messages.affected* results advance the
// sequence without a delivery), channelState.applyPts -> dispatch -> the user's handler, and the
// persisted channel pts.
// Claims: a tagged update reaches the handler at most once; when it does, every position before
// its start has been delivered or covered by an affected range (no hole); the channel position
// and every persisted channel pts never lie beyond what has been delivered or covered.
// Bound: 3 operations in both tiers (4 did not finish in 30 minutes on a loaded machine: more
// than 22800 paths), pts in [1,2^30), pts_count in [1,3].
func VerifC01_channel() {
	k := 3
	const cid = 77
	s0 := verifrt.NondetInt("s0")
	verifrt.Assume(s0 >= 1 && s0 < 1<<30)
	var covered []c01item // delivered updates and affected ranges, in the order they were seen
	seen := map[int]bool{}
	delivered := 0
	var st *channelState
	h := telegram.UpdateHandlerFunc(func(ctx context.Context, u tg.UpdatesClass) error {
		ups := u.(*tg.Updates)
		for _, x := range ups.Updates {
			d := x.(*tg.UpdateDeleteChannelMessages)
			tag := d.Messages[0]
			verifrt.Assert(!seen[tag], "C01.channel.once")
			seen[tag] = true
			start := d.Pts - d.PtsCount
			verifrt.Assert(c01reach(s0, covered) >= start, "C01.channel.order")
			verifrt.Assert(st.pts.State() <= start, "C01.channel.notbehind")
			covered = append(covered, c01item{start, d.Pts})
			delivered++
		}
		return nil
	})
	store := &c01store{memStorage: newMemStorage()}
	st = newChannelState(channelStateConfig{
		Out: make(chan tracedUpdate, 1), InitialPts: s0, ChannelID: cid, AccessHash: 1, SelfID: 5, DiffLimit: 100,
		Storage: store, Hasher: newMemAccessHasher(), UserHasher: newMemUserAccessHasher(), Handler: h,
		OnChannelTooLong: func(int64) {}, OnChannelInaccessible: func(int64) {},
		Tracer: noop.NewTracerProvider().Tracer("verif"),
	})
	ctx := context.Background()
	for step := 0; step < k; step++ {
		p := verifrt.NondetInt("pts")
		c := verifrt.NondetInt("count")
		verifrt.Assume(p >= 1 && p < 1<<30 && c >= 1 && c <= 3 && p-c >= 0)
		before := st.pts.State()
		if verifrt.NondetBool("affected") {
			// the result of the client's own request: covers (p-c, p] without a delivery
			covered = append(covered, c01item{p - c, p})
			verifrt.Assert(st.handleAffected(ctx, p, c) == nil, "C01.channel.noerr")
			verifrt.Reach("C01.channel.affected")
		} else {
			u := &tg.UpdateDeleteChannelMessages{ChannelID: cid, Messages: []int{step}, Pts: p, PtsCount: c}
			verifrt.Assert(st.handleUpdate(ctx, u, entities{}) == nil, "C01.channel.noerr")
		}
		after := st.pts.State()
		verifrt.Observe("state", after-s0)
		verifrt.Observe("reach", c01reach(s0, covered)-s0)
		verifrt.Assert(after >= before, "C01.channel.monotone")
		verifrt.Assert(after <= c01reach(s0, covered), "C01.channel.noskip")
		for _, v := range store.chPts {
			verifrt.Assert(v <= c01reach(s0, covered), "C01.channel.persisted")
		}
	}
	if delivered > 0 {
		verifrt.Reach("C01.channel.delivered")
	}
	verifrt.Reach("C01.channel.end")
}
