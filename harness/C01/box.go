//go:build verif

package updates

import (
	"context"

	"github.com/gotd/td/internal/verifrt"
)

// VerifC01_box drives one sequenceBox with an arbitrary history of updates and
// "difference fetched" steps (what getDifference does to a box: gaps.Clear + SetState)
// and monitors every apply callback.
//
// Claims: (once) no tagged update is applied twice; (order) every applied update starts exactly
// at the box position / at the end of the update applied just before it, so no earlier position
// is skipped; (state) the state passed to apply is the end of the batch and State() afterwards
// equals it.
// Bound: k operations (4 quick / 5 thorough), states in [1,2^30), counts in [1,3].
func VerifC01_box() {
	k := 4
	if verifrt.Tier() == 1 {
		k = 5
	}
	s0 := verifrt.NondetInt("s0")
	verifrt.Assume(s0 >= 1 && s0 < 1<<30)
	seen := map[int]bool{}
	var box *sequenceBox
	applied := 0
	box = newSequenceBox(sequenceConfig{
		InitialState: s0,
		Apply: func(ctx context.Context, state int, us []update) error {
			cur := box.State()
			for _, u := range us {
				tag := u.Value.(int)
				verifrt.Assert(!seen[tag], "C01.box.once")
				seen[tag] = true
				verifrt.Assert(u.start() == cur, "C01.box.order")
				cur = u.end()
				applied++
			}
			verifrt.Assert(state == cur, "C01.box.statearg")
			return nil
		},
	})
	ctx := context.Background()
	for step := 0; step < k; step++ {
		before := box.State()
		if verifrt.NondetBool("isdiff") {
			// difference fetched: state jumps forward to the server's value
			p := verifrt.NondetInt("diffstate")
			verifrt.Assume(p >= before && p < 1<<30)
			box.gaps.Clear()
			box.SetState(p, "difference")
			verifrt.Assert(box.State() == p, "C01.box.setstate")
			continue
		}
		st := verifrt.NondetInt("state")
		cnt := verifrt.NondetInt("count")
		verifrt.Assume(st >= 1 && st < 1<<30 && cnt >= 1 && cnt <= 3 && st-cnt >= 0)
		appliedBefore := applied
		err := box.Handle(ctx, update{Value: step, State: st, Count: cnt})
		verifrt.Assert(err == nil, "C01.box.noerr")
		after := box.State()
		// state only moves forward, and only by applying
		verifrt.Assert(after >= before, "C01.box.monotone")
		if applied == appliedBefore {
			verifrt.Assert(after == before, "C01.box.nomove")
		}
		if applied > appliedBefore {
			verifrt.Reach("C01.box.applied")
		}
		if box.gaps.Has() {
			verifrt.Reach("C01.box.gap")
		}
	}
	verifrt.Reach("C01.box.end")
}
