//go:build verif

package entity

import (
	"github.com/gotd/td/internal/verifrt"
	"github.com/gotd/td/tg"
)

type c35rune struct {
	s     string
	units int // UTF-16 code units
	space bool
}

// c35pick: one character: an arbitrary printable ASCII byte, a blank,
// or a representative of each longer UTF-8 form (2, 3 and 4 bytes — the last is an astral-plane
// character, two UTF-16 units — and a 3-byte Unicode space).
func c35pick() c35rune {
	switch verifrt.Fork("class", 6) {
	case 0:
		c := verifrt.NondetUint8("ascii")
		verifrt.Assume(c >= 0x21)
		verifrt.Assume(c <= 0x7e)
		return c35rune{string([]byte{c}), 1, false}
	case 1:
		return c35rune{" ", 1, true}
	case 2:
		return c35rune{"é", 1, false}
	case 3:
		return c35rune{"€", 1, false}
	case 4:
		return c35rune{"\U00010000", 2, false} // the first astral code point: boundary of the 2-unit class
	}
	return c35rune{"　", 1, true}
}

type c35text struct {
	runes []c35rune
	full  bool // all six character classes (else: printable ASCII, blank, astral)
}

// piece: the final piece of the message (where trailing white space matters) has 1..2 characters,
// earlier pieces one. With the full alphabet the final piece ranges over all six classes and the
// others over {printable ASCII, blank, astral} (quick) or all six (thorough).
func (t *c35text) piece(final bool) string {
	n := 1
	if final {
		n = 1 + verifrt.Fork("runes", 2)
	}
	s := ""
	for i := 0; i < n; i++ {
		var r c35rune
		if t.full && (final || verifrt.Tier() == 1) {
			r = c35pick()
		} else {
			switch verifrt.Fork("class3", 3) {
			case 0:
				c := verifrt.NondetUint8("ascii")
				verifrt.Assume(c >= 0x21)
				verifrt.Assume(c <= 0x7e)
				r = c35rune{string([]byte{c}), 1, false}
			case 1:
				r = c35rune{" ", 1, true}
			default:
				r = c35rune{"\U00010000", 2, false}
			}
		}
		t.runes = append(t.runes, r)
		s += r.s
	}
	return s
}

func (t *c35text) units() int {
	n := 0
	for _, r := range t.runes {
		n += r.units
	}
	return n
}

type c35want struct {
	typeID   uint32
	off, end int // UTF-16 units in the untrimmed text
}

// VerifC35_builder: a message built from up to `ops` operations — plain text, text with one
// formatter, text with two formatters, and a token applied over a plain piece followed by a
// formatted piece (nesting) — over characters from c35pick.
// Claims on Builder.Complete(): the text is the concatenation of the pieces with, at most, trailing
// white space removed; every entity starts at the UTF-16 offset of its piece, lies within the
// final text, and its length is the UTF-16 length of its piece, shortened only by white space
// trimmed at the very end of the message.
func VerifC35_builder() {
	ops := 1
	if verifrt.Tier() == 1 {
		ops = 2
	}
	c35run(ops, true)
}

// VerifC35_sequence: the same claims for sequences of two (quick) / three (thorough) operations
// over the reduced alphabet {arbitrary printable ASCII byte, blank, astral character} — the three
// that differ in UTF-8 length, UTF-16 length and white-space status.
func VerifC35_sequence() {
	ops := 2
	if verifrt.Tier() == 1 {
		ops = 3
	}
	c35run(ops, false)
}

func c35run(ops int, fullAlphabet bool) {
	var b Builder
	t := c35text{full: fullAlphabet}
	var want []c35want
	n := 1 + verifrt.Fork("ops", ops)
	for i := 0; i < n; i++ {
		start := t.units()
		last := i == n-1
		switch verifrt.Fork("op", 4) {
		case 0:
			b.Plain(t.piece(last))
		case 1:
			b.Format(t.piece(last), Bold())
			want = append(want, c35want{tg.MessageEntityBoldTypeID, start, t.units()})
		case 2:
			b.Format(t.piece(last), Underline(), Strike())
			want = append(want, c35want{tg.MessageEntityUnderlineTypeID, start, t.units()},
				c35want{tg.MessageEntityStrikeTypeID, start, t.units()})
		case 3:
			tok := b.Token()
			b.Plain(t.piece(false))
			inner := t.units()
			b.Format(t.piece(last), Italic())
			want = append(want, c35want{tg.MessageEntityItalicTypeID, inner, t.units()})
			tok.Apply(&b, Code())
			want = append(want, c35want{tg.MessageEntityCodeTypeID, start, t.units()})
			verifrt.Reach("C35.builder.nested")
		}
	}
	full := ""
	for _, r := range t.runes {
		full += r.s
	}
	msg, ents := b.Complete()
	// text: a prefix of the full text, the remainder is white space only
	verifrt.Assert(len(msg) <= len(full) && full[:len(msg)] == msg, "C35.builder.textprefix")
	if len(msg) > len(full) {
		return
	}
	kept, pos := 0, 0 // kept = UTF-16 units of msg
	for _, r := range t.runes {
		if pos >= len(msg) {
			verifrt.Assert(r.space, "C35.builder.onlyspacetrimmed")
		} else {
			kept += r.units
		}
		pos += len(r.s)
	}
	verifrt.Assert(ComputeLength(msg) == kept, "C35.builder.utf16len")
	verifrt.Assert(len(ents) == len(want), "C35.builder.count")
	for _, w := range want {
		found := false
		for _, e := range ents {
			if e.TypeID() != w.typeID {
				continue
			}
			if found {
				continue
			}
			// several ops may use the same formatter type: match on the offset as well; an entity
			// whose piece was trimmed away completely sits, empty, at the end of the text
			wantOff := w.off
			if wantOff > kept {
				wantOff = kept
			}
			if e.GetOffset() != wantOff {
				continue
			}
			found = true
			verifrt.Assert(e.GetOffset()+e.GetLength() <= kept, "C35.builder.within")
			wantLen := w.end - w.off
			if w.end > kept {
				wantLen = kept - wantOff
			}
			verifrt.Assert(e.GetLength() == wantLen, "C35.builder.length")
		}
		verifrt.Assert(found, "C35.builder.offset")
	}
	verifrt.Reach("C35.builder.end")
}
