//go:build verif

package mtproto

import (
	"context"
	"errors"

	"github.com/gotd/td/bin"
	"github.com/gotd/td/internal/verifrt"
	"github.com/gotd/td/mt"
	"github.com/gotd/td/proto"
	"github.com/gotd/td/rpc"
	"github.com/gotd/td/tdsync"
)

type c23handler struct {
	messages int
	sessions int
}

func (h *c23handler) OnMessage(b *bin.Buffer) error { h.messages++; return nil }
func (h *c23handler) OnSession(s Session) error     { h.sessions++; return nil }

type c23out struct{ decodes int }

func (o *c23out) Encode(b *bin.Buffer) error { return nil }
func (o *c23out) Decode(b *bin.Buffer) error { o.decodes++; return nil }

var c23ids = []uint32{
	mt.NewSessionCreatedTypeID, mt.BadMsgNotificationTypeID, mt.BadServerSaltTypeID, mt.FutureSaltsTypeID,
	proto.MessageContainerTypeID, proto.ResultTypeID, mt.PongTypeID, mt.MsgsAckTypeID, proto.GZIPTypeID,
	mt.MsgDetailedInfoTypeID, mt.MsgNewDetailedInfoTypeID,
}

// VerifC23_handle: Conn.handleMessage on an arbitrary payload: a constructor id (each of the 11
// the connection handles itself, or any other id) followed by 12 (quick) / 20 (thorough) arbitrary bytes; one (quick) or two
// (thorough) requests with arbitrary ids are pending in a real rpc.Engine.
// Claims: no panic; a pending request is completed (result decoded into its output, or an error
// delivered) only by a payload that names its message id — for a top-level rpc_result the
// req_msg_id, for bad_msg_notification / bad_server_salt the bad_msg_id; payloads of the other
// kinds complete nothing; an id the connection does not handle goes to the user's handler exactly
// once and to nothing else.
func VerifC23_handle() {
	verifrt.Bubble(func() {
		verifrt.OpaqueAlloc(true)
		h := newVerifMT()
		c := h.c
		hd := &c23handler{}
		c.handler = hd
		c.gotSession = tdsync.NewReady()
		c.rpc = rpc.New(func(ctx context.Context, msgID int64, seqNo int32, in bin.Encoder) error { return nil }, rpc.Options{})
		var ids [2]int64
		var outs [2]*c23out
		var done [2]bool
		var errs [2]error
		ids[0] = verifrt.NondetInt64("id0")
		ids[1] = verifrt.NondetInt64("id1")
		verifrt.Assume(ids[0] != ids[1])
		pending := 1
		if verifrt.Tier() == 1 {
			pending = 2
		}
		for k := 0; k < pending; k++ {
			k := k
			outs[k] = &c23out{}
			go func() {
				errs[k] = c.rpc.Do(context.Background(), rpc.Request{MsgID: ids[k], SeqNo: 1, Input: outs[k], Output: outs[k]})
				done[k] = true
			}()
		}
		verifrt.Settle()
		kind := verifrt.Fork("kind", len(c23ids)+1)
		var id uint32
		if kind < len(c23ids) {
			id = c23ids[kind]
		} else {
			id = verifrt.NondetUint32("otherid")
			for _, known := range c23ids {
				verifrt.Assume(id != known)
			}
		}
		plen := 12
		if verifrt.Tier() == 1 {
			plen = 20
		}
		rest := verifrt.NondetBytes("payload", plen)
		for _, x := range rest[plen-4:] {
			// the tail is where an rpc_error's message text falls: ASCII, as the server's are
			// (multi-byte UTF-8 decoding inside tgerr explodes the case split; C40 covers tgerr)
			verifrt.Assume(x < 0x80)
		}
		b := &bin.Buffer{}
		b.PutID(id)
		b.Put(rest)
		var herr error
		ok := verifrt.NoPanic(func() { herr = c.handleMessage(verifrt.NondetInt64("outer"), b) })
		verifrt.Assert(ok, "C23.handle.nopanic")
		if !ok {
			return
		}
		verifrt.Settle()
		named := func(off int) int64 {
			var v uint64
			for j := 7; j >= 0; j-- {
				v = v<<8 | uint64(rest[off+j])
			}
			return int64(v)
		}
		for k := 0; k < pending; k++ {
			completed := done[k] || outs[k].decodes > 0
			switch {
			case kind == 5: // rpc_result: req_msg_id is the first field
				if completed {
					verifrt.Assert(named(0) == ids[k], "C23.handle.ownresult")
					verifrt.Reach("C23.handle.routed")
				}
			case kind == 1 || kind == 2: // bad_msg_notification / bad_server_salt: bad_msg_id first
				if completed {
					verifrt.Assert(named(0) == ids[k] && errs[k] != nil, "C23.handle.ownbadmsg")
				}
				verifrt.Assert(outs[k].decodes == 0, "C23.handle.nodecode")
			case kind == 4 || kind == 8:
				// container / gzip: nested payloads are handled by the same function (not re-derived here)
			default:
				verifrt.Assert(!completed, "C23.handle.untouched")
			}
		}
		if kind == len(c23ids) {
			verifrt.Assert(hd.messages == 1 && herr == nil, "C23.handle.passedon")
			verifrt.Reach("C23.handle.other")
		} else if kind != 4 && kind != 8 {
			verifrt.Assert(hd.messages == 0, "C23.handle.notpassedon")
		}
		_ = errors.Is
		c.rpc.ForceClose()
		verifrt.Settle()
		verifrt.Reach("C23.handle.end")
	})
}
