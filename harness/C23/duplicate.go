//go:build verif

package mtproto

import (
	"context"

	"github.com/gotd/td/bin"
	"github.com/gotd/td/internal/verifrt"
	"github.com/gotd/td/mt"
	"github.com/gotd/td/proto"
	"github.com/gotd/td/rpc"
	"github.com/gotd/td/tdsync"
)

// c23dup is a request output whose Decode (a call-out of the library, made while the first copy
// of a result is being handled) can hand the very same payload to the connection once more — the
// second copy of a duplicated rpc_result overtaking the first.
type c23dup struct {
	decodes int
	again   func()
}

func (o *c23dup) Encode(b *bin.Buffer) error { return nil }
func (o *c23dup) Decode(b *bin.Buffer) error {
	o.decodes++
	if o.again != nil {
		f := o.again
		o.again = nil
		f()
	}
	return nil
}

// VerifC23_duplicate: the server repeats itself. One request with an arbitrary id is pending in a
// real rpc.Engine and one ping with an arbitrary ping id waits for its pong (registered the way
// Conn.Ping does; the waiter takes itself off the table only when it is scheduled, which here is
// after both copies). The same payload — a pong for that ping, an rpc_result for that request
// (arbitrary 4-byte body), a bad_msg_notification or a bad_server_salt naming it — is handled
// twice: back to back, with the request's goroutine scheduled in between, or (rpc_result) the second
// copy arriving while the first is inside Output.Decode.
// Claims: neither copy panics; the result is decoded into the output at most once; the ping
// waiter is woken; the request is completed.
func VerifC23_duplicate() {
	verifrt.Bubble(func() {
		h := newVerifMT()
		c := h.c
		c.handler = &c23handler{}
		c.gotSession = tdsync.NewReady()
		c.rpc = rpc.New(func(ctx context.Context, msgID int64, seqNo int32, in bin.Encoder) error { return nil }, rpc.Options{})
		id := verifrt.NondetInt64("id")
		pid := verifrt.NondetInt64("pingid")
		out := &c23dup{}
		done := false
		go func() {
			_ = c.rpc.Do(context.Background(), rpc.Request{MsgID: id, SeqNo: 1, Input: out, Output: out})
			done = true
		}()
		ch := c.pong(pid)
		verifrt.Settle()

		kind := verifrt.Fork("kind", 4)
		b := &bin.Buffer{}
		switch kind {
		case 0:
			_ = (&mt.Pong{MsgID: verifrt.NondetInt64("pingmsg"), PingID: pid}).Encode(b)
		case 1:
			body := verifrt.NondetBytes("body", 4)
			bid := uint32(body[0]) | uint32(body[1])<<8 | uint32(body[2])<<16 | uint32(body[3])<<24
			// a plain result: compressed results, rpc_error and pong bodies take other routes
			// (VerifC23_handle; the error route is kinds 2 and 3 here)
			verifrt.Assume(bid != proto.GZIPTypeID && bid != mt.RPCErrorTypeID && bid != mt.PongTypeID)
			_ = (&proto.Result{RequestMessageID: id, Result: body}).Encode(b)
		case 2:
			_ = (&mt.BadMsgNotification{BadMsgID: id, BadMsgSeqno: 1, ErrorCode: verifrt.NondetInt("code")}).Encode(b)
		case 3:
			_ = (&mt.BadServerSalt{BadMsgID: id, BadMsgSeqno: 1, ErrorCode: 48, NewServerSalt: verifrt.NondetInt64("salt")}).Encode(b)
		}
		raw := append([]byte{}, b.Buf...)
		deliver := func() {
			ok := verifrt.NoPanic(func() { _ = c.handleMessage(1, &bin.Buffer{Buf: append([]byte{}, raw...)}) })
			verifrt.Assert(ok, "C23.duplicate.nopanic")
		}
		mode := verifrt.Fork("mode", 3) // 0: back to back; 1: request goroutine scheduled in between; 2: second copy during Decode
		if mode == 2 {
			verifrt.Assume(kind == 1)
			out.again = deliver
		}
		deliver()
		if mode == 1 {
			verifrt.Settle()
		}
		if mode != 2 {
			deliver()
		}
		verifrt.Settle()
		verifrt.Assert(out.decodes <= 1, "C23.duplicate.decodedonce")
		if kind == 0 {
			woken := false
			select {
			case <-ch:
				woken = true
			default:
			}
			verifrt.Assert(woken, "C23.duplicate.pongwoken")
			c.removePong(pid) // the waiter, scheduled at last
			verifrt.Reach("C23.duplicate.pong")
		} else {
			verifrt.Assert(done, "C23.duplicate.completed")
			verifrt.Reach("C23.duplicate.request")
		}
		c.rpc.ForceClose()
		verifrt.Settle()
		verifrt.Reach("C23.duplicate.end")
	})
}
