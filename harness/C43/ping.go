//go:build verif

package mtproto

import (
	"context"
	"time"

	"github.com/gotd/td/bin"
	"github.com/gotd/td/clock"
	"github.com/gotd/td/internal/verifrt"
	"github.com/gotd/td/mt"
)

type verifOffsetClock struct{ off time.Duration }

func (c verifOffsetClock) Now() time.Time                      { return time.Now().Add(c.off) }
func (c verifOffsetClock) Timer(d time.Duration) clock.Timer   { return clock.System.Timer(d) }
func (c verifOffsetClock) Ticker(d time.Duration) clock.Ticker { return clock.System.Ticker(d) }

func verifPong(c *Conn, pingID int64) {
	b := &bin.Buffer{}
	_ = (&mt.Pong{MsgID: 1, PingID: pingID}).Encode(b)
	_ = c.handlePong(b)
}

// VerifC43_ping: Conn.Ping against a server played by the harness. Pongs with the matching id,
// with another (arbitrary, different) id, duplicated, early (while the ping is being written) or
// late are delivered at symbolic points; finally the caller's context is cancelled.
// Claims: Ping returns nil only if a pong carrying its own ping id was handled while it waited;
// without one it does not return before its context ends and then returns the context's error;
// the ping id sent is the one drawn from the random source; nothing is left in the pong table.
func VerifC43_ping() {
	verifrt.Bubble(func() {
		h := newVerifMT()
		c := h.c
		other := verifrt.NondetInt64("otherid")
		during := verifrt.Fork("during", 3) // while writing: nothing / matching pong / other pong
		after := verifrt.Fork("after", 4)   // once blocked: nothing / matching / other / other then matching
		dup := verifrt.NondetBool("dup")
		var pingID int64
		matched := false
		h.onSend = func(n int, s verifSent) {
			req, ok := s.msg.(*mt.PingRequest)
			verifrt.Assert(ok && n == 1, "C43.ping.request")
			if !ok {
				return
			}
			pingID = req.PingID
			verifrt.Assume(other != pingID)
			switch during {
			case 1:
				matched = true
				verifPong(c, pingID)
			case 2:
				verifPong(c, other)
			}
		}
		ctx, cancel := context.WithCancel(context.Background())
		var err error
		done := false
		go func() {
			err = c.Ping(ctx)
			done = true
		}()
		verifrt.Settle()
		verifrt.Assert(done == matched, "C43.ping.onlymatching")
		if !done {
			switch after {
			case 1:
				matched = true
				verifPong(c, pingID)
			case 2:
				verifPong(c, other)
			case 3:
				verifPong(c, other)
				verifrt.Settle()
				verifrt.Assert(!done, "C43.ping.onlymatching")
				matched = true
				verifPong(c, pingID)
			}
			verifrt.Settle()
			verifrt.Assert(done == matched, "C43.ping.onlymatching")
		}
		if dup && matched {
			verifPong(c, pingID) // a duplicate pong is harmless
			verifrt.Settle()
		}
		if !done {
			verifrt.Advance(time.Hour) // time alone never completes a ping
			verifrt.Assert(!done, "C43.ping.waits")
			cancel()
			verifrt.Settle()
			verifrt.Assert(done && err == context.Canceled, "C43.ping.ctxerror")
			verifrt.Reach("C43.ping.cancelled")
		} else {
			verifrt.Assert(err == nil, "C43.ping.success")
			verifrt.Reach("C43.ping.ponged")
		}
		cancel()
		c.pingMux.Lock()
		left := len(c.ping)
		c.pingMux.Unlock()
		verifrt.Assert(left == 0, "C43.ping.tableclean")
		verifrt.Reach("C43.ping.end")
	})
}

// VerifC43_loop: the keep-alive loop on the virtual clock. Each interval it sends
// ping_delay_disconnect(interval+timeout); the pong for round r arrives after a symbolic delay or
// never. Claims: a pong within the timeout keeps the loop running and the next ping goes out one
// interval after the previous tick; a missing pong ends the loop with an error exactly when the
// ping timeout expires (interval + timeout after the previous tick), never later.
func VerifC43_loop() {
	verifrt.Bubble(func() {
		h := newVerifMT()
		c := h.c
		// the connection's clock may be corrected against the local one (clock/ntp style): the
		// timeout is a duration and must not depend on the offset
		c.clock = verifOffsetClock{time.Duration(verifrt.Fork("offset", 3)-1) * time.Hour}
		interval := time.Duration(30+30*verifrt.Fork("interval", 2)) * time.Second
		timeout := time.Duration(5+10*verifrt.Fork("timeout", 2)) * time.Second
		c.pingInterval, c.pingTimeout = interval, timeout
		var ids []int64
		h.onSend = func(n int, s verifSent) {
			req, ok := s.msg.(*mt.PingDelayDisconnectRequest)
			verifrt.Assert(ok, "C43.loop.request")
			if ok {
				verifrt.Assert(req.DisconnectDelay == int((interval+timeout).Seconds()), "C43.loop.delay")
				ids = append(ids, req.PingID)
			}
		}
		ctx, cancel := context.WithCancel(context.Background())
		defer cancel()
		var err error
		done := false
		go func() {
			err = c.pingLoop(ctx)
			done = true
		}()
		verifrt.Settle()
		rounds := 2
		for r := 0; r < rounds; r++ {
			// ticks are periodic: the next one is due (r+1) intervals after the loop started
			due := time.Duration(r+1)*interval - time.Since(h.start)
			verifrt.Advance(due - time.Second)
			verifrt.Assert(len(h.sent) == r && !done, "C43.loop.notearly")
			verifrt.Advance(time.Second)
			verifrt.Assert(len(h.sent) == r+1 && !done, "C43.loop.pingsent")
			if len(h.sent) != r+1 {
				return
			}
			switch verifrt.Fork("pong", 3) {
			case 0: // prompt pong
				verifPong(c, ids[r])
				verifrt.Settle()
				verifrt.Assert(!done, "C43.loop.alive")
			case 1: // pong just before the timeout
				verifrt.Advance(timeout - time.Second)
				verifrt.Assert(!done, "C43.loop.alive")
				verifPong(c, ids[r])
				verifrt.Settle()
				verifrt.Assert(!done, "C43.loop.alive")
			case 2: // no pong
				verifrt.Advance(timeout - time.Second)
				verifrt.Assert(!done, "C43.loop.notyet")
				verifrt.Advance(time.Second)
				verifrt.Assert(done && err != nil, "C43.loop.dead")
				verifrt.Reach("C43.loop.dead")
				return
			}
		}
		verifrt.Reach("C43.loop.end")
	})
}
