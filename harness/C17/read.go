//go:build verif

package codec

import (
	"io"

	"github.com/gotd/td/bin"
	"github.com/gotd/td/internal/verifrt"
)

// c17stream serves up to len(data) arbitrary bytes, then EOF.
type c17stream struct {
	data []byte
	pos  int
}

func (r *c17stream) Read(p []byte) (int, error) {
	if len(p) == 0 {
		return 0, nil
	}
	rem := len(r.data) - r.pos
	if rem == 0 {
		return 0, io.EOF
	}
	n := len(p)
	if n > rem {
		n = rem
	}
	copy(p, r.data[r.pos:r.pos+n])
	r.pos += n
	return n, nil
}

const c17limit = 1<<24 + 16 // protocol frame limit plus framing

// VerifC17_read: any stream of up to 16 arbitrary bytes (then EOF) fed to each codec's Read:
// no panic (implicit obligation), and the buffer the codec sized for the frame never exceeds the
// 16 MiB frame limit. Length prefixes range over all 2^32 (abridged: 2^24) values.
func VerifC17_read() {
	verifrt.OpaqueAlloc(true)
	which := verifrt.Fork("codec", 4)
	n := 16
	if verifrt.Tier() == 1 {
		n = 16 + 4*verifrt.Fork("extra", 3)
	}
	s := &c17stream{data: verifrt.NondetBytes("stream", n)}
	b := &bin.Buffer{}
	var err error
	switch which {
	case 0:
		err = Abridged{}.Read(s, b)
	case 1:
		err = Intermediate{}.Read(s, b)
	case 2:
		err = PaddedIntermediate{}.Read(s, b)
	case 3:
		f := &Full{}
		err = f.Read(s, b)
	}
	verifrt.Assert(len(b.Buf) <= c17limit && cap(b.Buf) <= 4*c17limit, "C17.read.alloc")
	verifrt.Class("C17-abridged-64MiB", which == 0 && len(b.Buf) > c17limit)
	if err != nil {
		verifrt.Reach("C17.read.err")
	} else {
		verifrt.Reach("C17.read.ok")
		verifrt.Assert(len(b.Buf) <= n, "C17.read.nomorethanstream")
	}
	verifrt.Reach("C17.read.end")
}
