//go:build verif

package mtproto

import (
	"context"
	"time"

	"github.com/gotd/log"

	"github.com/gotd/td/bin"
	"github.com/gotd/td/clock"
	"github.com/gotd/td/crypto"
	"github.com/gotd/td/internal/verifrt"
	"github.com/gotd/td/proto"
)

// Shared fixtures for mtproto harnesses: a Conn assembled in-package around a recording cipher and
// a recording transport, on the system clock (virtual under the engine / inside synctest).

type verifSent struct {
	msgID   int64
	seqNo   int32
	salt    int64
	session int64
	msg     bin.Encoder
	at      time.Duration
}

type verifCipher struct {
	h *verifMT
}

func (c verifCipher) DecryptFromBuffer(k crypto.AuthKey, buf *bin.Buffer) (*crypto.EncryptedMessageData, error) {
	if c.h.decrypted == nil {
		panic("verif: DecryptFromBuffer not used")
	}
	d := *c.h.decrypted
	return &d, nil
}

func (c verifCipher) Encrypt(key crypto.AuthKey, data crypto.EncryptedMessageData, b *bin.Buffer) error {
	c.h.last = verifSent{msgID: data.MessageID, seqNo: data.SeqNo, salt: data.Salt, session: data.SessionID, msg: data.Message}
	return nil
}

type verifTransport struct {
	h *verifMT
}

func (t verifTransport) Send(ctx context.Context, b *bin.Buffer) error {
	h := t.h
	s := h.last
	s.at = time.Since(h.start)
	h.sent = append(h.sent, s)
	if h.onSend != nil {
		h.onSend(len(h.sent), s)
	}
	if h.sendErr != nil {
		return h.sendErr
	}
	return ctx.Err()
}

func (t verifTransport) Recv(ctx context.Context, b *bin.Buffer) error {
	<-ctx.Done()
	return ctx.Err()
}

func (t verifTransport) Close() error { t.h.closed++; return nil }

type verifRand struct{ name string }

func (r verifRand) Read(p []byte) (int, error) {
	copy(p, verifrt.NondetBytes(r.name, len(p)))
	return len(p), nil
}

type verifMT struct {
	decrypted *crypto.EncryptedMessageData // what the cipher fake "decrypts"
	c       *Conn
	start   time.Time
	last    verifSent
	sent    []verifSent
	onSend  func(n int, s verifSent)
	sendErr error
	closed  int
}

func newVerifMT() *verifMT {
	h := &verifMT{start: time.Now()}
	h.c = &Conn{
		clock:        clock.System,
		rand:         verifRand{"rand"},
		cipher:       verifCipher{h},
		conn:         verifTransport{h},
		log:          log.For(log.Nop),
		messageID:    proto.NewMessageIDGen(time.Now),
		messageIDBuf: proto.NewMessageIDBuf(4),
		ping:         map[int64]chan struct{}{},
		pingTimeout:  15 * time.Second,
		pingInterval: 60 * time.Second,
		getTimeout:   func(uint32) time.Duration { return 10 * time.Second },
	}
	return h
}
