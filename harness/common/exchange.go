//go:build verif

package exchange

import (
	"context"
	"crypto/rsa"
	"math/big"
	"time"

	"github.com/gotd/td/bin"
	"github.com/gotd/td/clock"
	"github.com/gotd/td/internal/verifrt"
)

// Shared fixtures for the key-exchange harnesses (C12, C10): an in-memory transport between the
// real ClientExchange and the repository's own ServerExchange (fixed test RSA key, the
// repository's TestServerRNG: fixed pq and DH prime), with a hook on every server message.

const verifKeyN = "d14cc535d495933ee03b05d048e7b74be6ca2078576f445ebaa46e51b254e7fa359c9e22e58063f03f506655998b929d9bceed14aec65cccbfc26e518c93fba5637034cc28cc6d0da1f57a228084458e800c23b122ed2235fb833fde7d44e393ec5bc66e9dfdac64ca44051fd6e774e34bc233ad02f1a6cf7f8bcee82636e44d01a5138f79eaa8e96db98a1721c2118dc38b2ecff698f24cfa8a7fafce11c26c676afa4e163fec4634b226d8656a998f909172d533c9194fe98ca6068cf2d9e2bb393a549682386fe931524d037fbf0a5f50897a3f7a200a7ced9bd856b2d7c59ba0f1fee41cfa791c96ca4234051b0f20c03303523bda68929af07169e64511"
const verifKeyD = "b97402d25dd9632d3556572265571c2d1f043e9d232c2e3299c29515c2a44520895c8b2a749cbcf0e5c901c41b5776c43c88afbdc1d775e6de8b136122e504f75912d555895909d0288ff0769dd596245c0565a2d145b92888019618387b5003844d1598725991e584eb9c76c7df32cd2c1599e0555975eb2a22e16506676105d79555400356758afc0416abeba00e33c38eccc92d4d399bc8770579d35842b9e0f3174dd4ceecfe2624f6a88aafaffa986ebec8b84313eb98a95c09fb28e436416c167169fec13bedc2a655533c896478b77d754fe3010994a132194f99cd0a465834a9ad6dffb6fb05e67fbfb53ac53e1bc2857437c6cbb7326831c2cecc01"

func verifServerKey() PrivateKey {
	n, _ := new(big.Int).SetString(verifKeyN, 16)
	d, _ := new(big.Int).SetString(verifKeyD, 16)
	return PrivateKey{RSA: &rsa.PrivateKey{PublicKey: rsa.PublicKey{N: n, E: 65537}, D: d}}
}

// verifRand: a deterministic byte stream (the flows only need *some* random bytes).
type verifRand struct{ state uint32 }

func (r *verifRand) Read(p []byte) (int, error) {
	for i := range p {
		r.state = r.state*1664525 + 1013904223
		p[i] = byte(r.state >> 24)
	}
	return len(p), nil
}

type verifPipe struct {
	toServer   chan []byte
	toClient   chan []byte
	serverMsgs int
	// onServer is called with every message the server sends (1-based index); it returns the bytes
	// to deliver, or nil to drop the message (a server that went silent).
	onServer func(n int, data []byte) []byte
	// client-side bookkeeping
	clientSends    int
	lastClientSend time.Time
}

func newVerifPipe() *verifPipe {
	return &verifPipe{toServer: make(chan []byte, 8), toClient: make(chan []byte, 8)}
}

type verifEnd struct {
	p      *verifPipe
	client bool
}

func (e verifEnd) Send(ctx context.Context, b *bin.Buffer) error {
	if err := ctx.Err(); err != nil {
		return err
	}
	data := append([]byte(nil), b.Buf...)
	if e.client {
		e.p.clientSends++
		e.p.lastClientSend = time.Now()
		e.p.toServer <- data
		return nil
	}
	e.p.serverMsgs++
	if e.p.onServer != nil {
		data = e.p.onServer(e.p.serverMsgs, data)
		if data == nil {
			return nil
		}
	}
	e.p.toClient <- data
	return nil
}

func (e verifEnd) Recv(ctx context.Context, b *bin.Buffer) error {
	ch := e.p.toClient
	if !e.client {
		ch = e.p.toServer
	}
	select {
	case d := <-ch:
		b.ResetTo(d)
		return nil
	case <-ctx.Done():
		return ctx.Err()
	}
}

func (e verifEnd) Close() error { return nil }

type verifRun struct {
	p          *verifPipe
	clientDone bool
	clientErr  error
	result     ClientExchangeResult
	serverDone bool
	serverErr  error
	serverKey  [256]byte
}

// verifStart runs both flows (client under ctx) until everything is blocked or finished.
// verifSkewClock: a clock corrected against the local one (clock/ntp style). The exchange timeout
// is a duration: it must not depend on the correction.
type verifSkewClock struct{ off time.Duration }

func (c verifSkewClock) Now() time.Time                      { return time.Now().Add(c.off) }
func (c verifSkewClock) Timer(d time.Duration) clock.Timer   { return clock.System.Timer(d) }
func (c verifSkewClock) Ticker(d time.Duration) clock.Ticker { return clock.System.Ticker(d) }

func verifStart(ctx context.Context, timeout time.Duration, temp bool, p *verifPipe) *verifRun {
	return verifStartSkew(ctx, timeout, temp, p, 0)
}

func verifStartSkew(ctx context.Context, timeout time.Duration, temp bool, p *verifPipe, skew time.Duration) *verifRun {
	r := &verifRun{p: p}
	key := verifServerKey()
	ce := NewExchanger(verifEnd{p, true}, 2).WithTimeout(timeout).WithRand(&verifRand{1}).WithClock(verifSkewClock{skew})
	if temp {
		ce = ce.WithTempMode(3600)
	}
	client := ce.Client([]PublicKey{key.Public()})
	server := NewExchanger(verifEnd{p, false}, 2).WithTimeout(timeout).WithRand(&verifRand{7}).Server(key)
	go func() {
		res, err := server.Run(context.Background())
		r.serverErr = err
		r.serverKey = res.Key.Value
		r.serverDone = true
	}()
	go func() {
		r.result, r.clientErr = client.Run(ctx)
		r.clientDone = true
	}()
	verifrt.Settle()
	return r
}
