//go:build verif

package crypto

import (
	"bytes"
	"math/big"

	"github.com/gotd/td/internal/verifrt"
)

// verifC13Prime: the 2048-bit safe prime Telegram servers use (core.telegram.org/mtproto/auth_key).
var verifC13PrimeHex = "C71CAEB9C6B1C9048E6C522F70F13F73980D40238E3E21C14934D037563D930F" +
	"48198A0AA7C14058229493D22530F4DBFA336F6E0AC925139543AED44CCE7C37" +
	"20FD51F69458705AC68CD4FE6B6B13ABDC9746512969328454F18FAF8C595F64" +
	"2477FE96BB2A941D5BCD1D4AC8CC49880708FA9B378E3C4F3A9060BEE67CF9A4" +
	"A4A695811051907E162753B56B0F6B410DBA74D8A84B2A14B3144E0EF1284754" +
	"FD17ED950D5965B4B9DD46582DB1178D169C6BC465B0D6FF9CA3928FEF5B9AE4" +
	"E418FC15E83EBEA0F87FA9FF5EED70050DED2849F47BF959D956850CE929851F" +
	"0D8115F635B105EE2E4E15D04B2454BF6F4FADF034B10403119CD8E3B92FCC5B"

// VerifC13_gp: CheckGP(g, p) for every generator value g (all ints) and every p below 2^64 — the
// residue rule does not depend on the size of p. Reference: the table of the specification
// (core.telegram.org/mtproto/auth_key, "g generates a cyclic subgroup of prime order (p-1)/2").
func VerifC13_gp() {
	g := verifrt.NondetInt("g")
	pb := verifrt.NondetBytes("p", 8)
	p := new(big.Int).SetBytes(pb)
	var v uint64
	for _, b := range pb {
		v = v<<8 | uint64(b)
	}
	want := false
	switch g {
	case 2:
		want = v%8 == 7
	case 3:
		want = v%3 == 2
	case 4:
		want = true
	case 5:
		want = v%5 == 1 || v%5 == 4
	case 6:
		want = v%24 == 19 || v%24 == 23
	case 7:
		want = v%7 == 3 || v%7 == 5 || v%7 == 6
	}
	got := CheckGP(g, p) == nil
	verifrt.Assert(got == want, "C13.gp.table")
	if got {
		verifrt.Reach("C13.gp.accepted")
	} else {
		verifrt.Reach("C13.gp.rejected")
	}
}

// VerifC13_params: CheckDHParams(p, g, g_a, g_b) with the real 2048-bit prime, g in 0..8 and
// arbitrary 2048-bit g_a, g_b. Reference: 1 < g, g_a, g_b < p-1 and 2^1984 < g_a, g_b < p-2^1984,
// evaluated on the big-endian byte strings.
func VerifC13_params() {
	p, _ := new(big.Int).SetString(verifC13PrimeHex, 16)
	g := int64(verifrt.Fork("g", 9))
	ga := verifrt.NondetBytes("ga", 256)
	gb := verifrt.NondetBytes("gb", 256)
	one := big.NewInt(1)
	pm1 := new(big.Int).Sub(p, one)
	lo := new(big.Int).Lsh(one, 1984)
	hi := new(big.Int).Sub(p, lo)
	be := func(n *big.Int) []byte { b := make([]byte, 256); n.FillBytes(b); return b }
	inside := func(x []byte, min, max *big.Int) bool {
		return bytes.Compare(x, be(min)) > 0 && bytes.Compare(x, be(max)) < 0
	}
	want := g > 1 && big.NewInt(g).Cmp(pm1) < 0 &&
		inside(ga, one, pm1) && inside(gb, one, pm1) && inside(ga, lo, hi) && inside(gb, lo, hi)
	err := CheckDHParams(p, big.NewInt(g), new(big.Int).SetBytes(ga), new(big.Int).SetBytes(gb))
	verifrt.Observe("want", want)
	verifrt.Observe("got", err == nil)
	verifrt.Assert((err == nil) == want, "C13.params.exact")
	if err == nil {
		verifrt.Reach("C13.params.accepted")
	} else {
		verifrt.Reach("C13.params.rejected")
	}
}

// VerifC13_dh: CheckDH on concrete candidates around the real prime: the real prime with each g in
// 0..8 is accepted exactly per the residue table; a 2047-bit and a 2049-bit value, a composite of
// the right size, and a prime p whose (p-1)/2 is composite are refused.
func VerifC13_dh() {
	p, _ := new(big.Int).SetString(verifC13PrimeHex, 16)
	g := verifrt.Fork("g", 9)
	cand := verifrt.Fork("cand", 5)
	q := new(big.Int).Set(p)
	ok := true
	switch cand {
	case 1:
		q.Rsh(q, 1) // 2047 bits
		ok = false
	case 2:
		q.Lsh(q, 1) // 2049 bits
		ok = false
	case 3:
		q.Add(q, big.NewInt(2)) // odd neighbour: composite (p is a safe prime; p+2 is divisible by 3)
		ok = false
	case 4:
		q.Sub(q, big.NewInt(1)).Rsh(q, 1) // (p-1)/2 is prime but 2047 bits
		ok = false
	}
	err := CheckDH(g, q)
	if ok {
		verifrt.Assert((err == nil) == (CheckGP(g, p) == nil), "C13.dh.real")
	} else {
		verifrt.Assert(err != nil, "C13.dh.refused")
	}
	verifrt.Reach("C13.dh.end")
}
