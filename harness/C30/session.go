//go:build verif

package telegram

import (
	"context"

	"github.com/gotd/log"

	"github.com/gotd/td/crypto"
	"github.com/gotd/td/internal/verifrt"
	"github.com/gotd/td/mtproto"
	"github.com/gotd/td/pool"
	"github.com/gotd/td/session"
	"github.com/gotd/td/tdsync"
	"github.com/gotd/td/telegram/internal/manager"
	"github.com/gotd/td/tg"
)

type c30storage struct {
	data  *session.Data
	saves []session.Data
}

func (s *c30storage) Load(ctx context.Context) (*session.Data, error) {
	if s.data == nil {
		return nil, session.ErrNotFound
	}
	d := *s.data
	return &d, nil
}

func (s *c30storage) Save(ctx context.Context, d *session.Data) error {
	cp := *d
	cp.AuthKey = append([]byte(nil), d.AuthKey...)
	cp.AuthKeyID = append([]byte(nil), d.AuthKeyID...)
	s.data = &cp
	s.saves = append(s.saves, cp)
	return nil
}

func c30key(name string) crypto.AuthKey {
	var k crypto.AuthKey
	// four arbitrary bytes of key material and an arbitrary id are enough to tell keys apart
	copy(k.Value[:4], verifrt.NondetBytes(name+"val", 4))
	copy(k.ID[:], verifrt.NondetBytes(name+"id", 8))
	return k
}

func c30client(st *c30storage, primary int) (*Client, *int) {
	created := new(int)
	c := &Client{
		storage:     st,
		session:     pool.NewSyncSession(pool.Session{DC: primary}),
		sessions:    map[int]*pool.SyncSession{},
		cdnSessions: map[int]*pool.SyncSession{},
		cfg:         manager.NewAtomicConfig(tg.Config{}),
		ready:       tdsync.NewResetReady(),
		log:         log.For(log.Nop),
		ctx:         context.Background(),
		connChanged: make(chan struct{}),
	}
	c.create = func(dial mtproto.Dialer, mode manager.ConnMode, appID int, opts mtproto.Options, connOpts manager.ConnOptions) pool.Conn {
		*created++
		return nil
	}
	return c, created
}

// VerifC30_save: two session notifications (Client.onSession) from connections to arbitrary DCs,
// with arbitrary keys, permanent keys (present or zero: PFS on/off) and salts, on a client whose
// primary DC is unset or arbitrary.
// Claims: whatever is persisted pairs the DC id with the key and salt reported by a connection
// to that same DC, and that DC is the client's primary DC at that moment; the key persisted is
// the permanent key when there is one; a notification from a non-primary DC persists nothing.
func VerifC30_save() {
	st := &c30storage{}
	primary := verifrt.Fork("primary", 3) // 0 = not yet known, 1, 2
	c, _ := c30client(st, primary)
	for i := 0; i < 2; i++ {
		dc := verifrt.Fork("dc", 3) // 0 (unknown), 1, 2
		s := mtproto.Session{Key: c30key("key"), Salt: verifrt.NondetInt64("salt")}
		if verifrt.NondetBool("pfs") {
			s.PermKey = c30key("perm")
			verifrt.Assume(!s.PermKey.Zero())
		}
		before := len(st.saves)
		primaryBefore := c.session.Load().DC
		err := c.onSession(tg.Config{ThisDC: dc}, s)
		verifrt.Assert(err == nil, "C30.save.noerr")
		if dc != 0 && primaryBefore != 0 && primaryBefore != dc {
			verifrt.Assert(len(st.saves) == before, "C30.save.nonprimaryignored")
			verifrt.Assert(c.session.Load().DC == primaryBefore, "C30.save.primarykept")
			verifrt.Reach("C30.save.ignored")
			continue
		}
		verifrt.Assert(len(st.saves) == before+1, "C30.save.saved")
		if len(st.saves) != before+1 {
			return
		}
		d := st.saves[before]
		want := s.Key
		if !s.PermKey.Zero() {
			want = s.PermKey
		}
		verifrt.Assert(d.DC == dc && c.session.Load().DC == dc, "C30.save.dc")
		verifrt.Assert(string(d.AuthKey) == string(want.Value[:]) && string(d.AuthKeyID) == string(want.ID[:]), "C30.save.key")
		verifrt.Assert(d.Salt == s.Salt, "C30.save.salt")
		verifrt.Assert(c.session.Load().AuthKey == want && c.session.Load().Salt == s.Salt, "C30.save.session")
	}
	verifrt.Reach("C30.save.end")
}

// VerifC30_restore: Client.restoreConnection from stored data with arbitrary key bytes and key id.
// Claim: the stored session is used (a primary connection is created for it) only if the stored
// id is the id of the stored key (SHA-1 based); otherwise an error is returned and nothing changes.
func VerifC30_restore() {
	var key crypto.Key
	copy(key[:4], verifrt.NondetBytes("val", 4))
	id := verifrt.NondetBytes("id", 8)
	st := &c30storage{data: &session.Data{DC: 2, AuthKey: append([]byte(nil), key[:]...), AuthKeyID: id, Salt: 5}}
	c, created := c30client(st, 0)
	err := c.restoreConnection(context.Background())
	real := key.ID()
	if string(real[:]) == string(id) {
		verifrt.Assert(err == nil && *created == 1 && c.session.Load().DC == 2 && c.session.Load().AuthKey.Value == key, "C30.restore.used")
		verifrt.Reach("C30.restore.used")
	} else {
		verifrt.Assert(err != nil && *created == 0 && c.session.Load().AuthKey.Zero(), "C30.restore.refused")
		verifrt.Reach("C30.restore.refused")
	}
}
