//go:build verif

package proto

import (
	"errors"
	"io"

	"github.com/gotd/td/bin"
	"github.com/gotd/td/internal/verifrt"
)

func c22body(name string) []byte {
	return verifrt.NondetBytes(name, 4*verifrt.Fork(name+"len", 3))
}

// VerifC22_container: a container of 1..2 messages with arbitrary ids, seq nos and bodies of
// 0/4/8 arbitrary bytes encodes and decodes back to the same messages, consuming exactly what was
// written (an arbitrary 4-byte suffix stays).
func VerifC22_container() {
	n := 1 + verifrt.Fork("n", 2)
	var in MessageContainer
	for i := 0; i < n; i++ {
		body := c22body("body")
		in.Messages = append(in.Messages, Message{
			ID: verifrt.NondetInt64("id"), SeqNo: int(verifrt.NondetInt32("seq")), Bytes: len(body), Body: body,
		})
	}
	b := &bin.Buffer{}
	verifrt.Assert(in.Encode(b) == nil, "C22.container.encode")
	verifrt.Assert(b.Len()%4 == 0, "C22.container.aligned")
	suffix := verifrt.NondetBytes("suffix", 4)
	b.Put(suffix)
	var out MessageContainer
	verifrt.Assert(out.Decode(b) == nil, "C22.container.decode")
	verifrt.Assert(len(out.Messages) == n, "C22.container.count")
	if len(out.Messages) != n {
		return
	}
	for i := range in.Messages {
		a, c := in.Messages[i], out.Messages[i]
		verifrt.Assert(a.ID == c.ID && a.SeqNo == c.SeqNo && a.Bytes == c.Bytes && string(a.Body) == string(c.Body), "C22.container.equal")
	}
	verifrt.Assert(string(b.Buf) == string(suffix), "C22.container.exact")
	verifrt.Reach("C22.container.end")
}

// VerifC22_result: rpc_result and unencrypted messages round-trip (arbitrary ids, bodies of
// 0/4/8 arbitrary bytes).
func VerifC22_result() {
	body := c22body("body")
	r := Result{RequestMessageID: verifrt.NondetInt64("req"), Result: body}
	b := &bin.Buffer{}
	verifrt.Assert(r.Encode(b) == nil, "C22.result.encode")
	var r2 Result
	verifrt.Assert(r2.Decode(b) == nil, "C22.result.decode")
	verifrt.Assert(r2.RequestMessageID == r.RequestMessageID && string(r2.Result) == string(body) && b.Len() == 0, "C22.result.equal")

	u := UnencryptedMessage{MessageID: verifrt.NondetInt64("mid"), MessageData: body}
	b = &bin.Buffer{}
	verifrt.Assert(u.Encode(b) == nil, "C22.unenc.encode")
	suffix := verifrt.NondetBytes("suffix", 4)
	b.Put(suffix)
	var u2 UnencryptedMessage
	verifrt.Assert(u2.Decode(b) == nil, "C22.unenc.decode")
	verifrt.Assert(u2.MessageID == u.MessageID && string(u2.MessageData) == string(body) && string(b.Buf) == string(suffix), "C22.unenc.equal")
	verifrt.Reach("C22.result.end")
}

// VerifC22_any: 28 arbitrary bytes (optionally behind the right constructor id) into each decoder:
// no panic; nothing larger than 1 MiB (+ slack) is allocated; a message whose declared length is
// negative or above 1 MiB is rejected; a decoder that succeeds has not read past the input.
func VerifC22_any() {
	verifrt.AllocLimit(1<<20 + 64)
	verifrt.OpaqueAlloc(true)
	which := verifrt.Fork("which", 4)
	raw := verifrt.NondetBytes("raw", 28)
	b := &bin.Buffer{}
	withID := verifrt.NondetBool("withid")
	switch which {
	case 0:
		if withID {
			b.PutID(MessageContainerTypeID)
			// at most two elements (each element needs 16 bytes: more cannot fit into the input)
		}
	case 1:
		if withID {
			b.PutID(ResultTypeID)
		}
	}
	b.Put(raw)
	total := b.Len()
	ok := verifrt.NoPanic(func() {
		var err error
		switch which {
		case 0:
			var m MessageContainer
			err = m.Decode(b)
			if err == nil {
				for _, x := range m.Messages {
					verifrt.Assert(x.Bytes >= 0 && x.Bytes <= 1<<20 && len(x.Body) == x.Bytes, "C22.any.msglen")
				}
			}
		case 1:
			var r Result
			err = r.Decode(b)
		case 2:
			var u UnencryptedMessage
			err = u.Decode(b)
			if err == nil {
				verifrt.Assert(len(u.MessageData) <= total, "C22.any.unenclen")
			}
		case 3:
			var m Message
			err = m.Decode(b)
			// whatever the outcome, the body buffer that was allocated is bounded (observable natively)
			verifrt.Assert(len(m.Body) <= 1<<20, "C22.any.bodyalloc")
			if err == nil {
				verifrt.Assert(m.Bytes >= 0 && m.Bytes <= total && len(m.Body) == m.Bytes, "C22.any.msglen")
				verifrt.Reach("C22.any.msgok")
			}
		}
		if err == nil {
			verifrt.Assert(b.Len() <= total, "C22.any.noreadpast")
		}
	})
	verifrt.Assert(ok, "C22.any.nopanic")
	verifrt.Reach("C22.any.end")
}

// VerifC22_limits: the 1 MiB body limit is inclusive on both sides, for every declared length:
// Message.Encode succeeds exactly for 0 <= Bytes <= 1 MiB; Message.Decode of a header declaring a
// length in that range is not refused for its length (with too few bytes behind it the error is
// the unexpected end of input), and a declared length outside it is refused.
func VerifC22_limits() {
	verifrt.OpaqueAlloc(true)
	n := verifrt.NondetInt32("bytes")
	m := Message{ID: 1, SeqNo: 1, Bytes: int(n)}
	err := m.Encode(&bin.Buffer{})
	verifrt.Assert((err == nil) == (n >= 0 && n <= 1<<20), "C22.limits.encode")
	b := &bin.Buffer{}
	b.PutLong(1)
	b.PutInt(1)
	b.PutInt32(n)
	b.Put(verifrt.NondetBytes("body", 4))
	var out Message
	derr := out.Decode(b)
	switch {
	case n < 0 || n > 1<<20:
		verifrt.Assert(derr != nil && !errors.Is(derr, io.ErrUnexpectedEOF), "C22.limits.refused")
		verifrt.Reach("C22.limits.refused")
	case n <= 4:
		verifrt.Assert(derr == nil && len(out.Body) == int(n), "C22.limits.decoded")
	default:
		verifrt.Assert(errors.Is(derr, io.ErrUnexpectedEOF), "C22.limits.shortinput")
		verifrt.Reach("C22.limits.short")
	}
	verifrt.Reach("C22.limits.end")
}
