//go:build verif

package tg

import (
	"sort"

	"github.com/gotd/td/bin"
	"github.com/gotd/td/internal/verifrt"
)

// verifC21 is the body shared by the per-schema harnesses: pick a constructor from the schema's
// registry (symbolic choice over the sorted ids, or over a sample of them), feed its decoder the
// constructor id followed by `n` arbitrary bytes, and
//   - never panic, never allocate more than the vector preallocation limit allows;
//   - if the value decodes: encode it, decode those bytes into a fresh value, encode again: both
//     decodings succeed, the second value equals the first field by field (verifrt.SameValue:
//     pointers followed, floats by bit pattern, nil and empty slices alike) and both encodings
//     are byte-identical (decode(encode(v)) == v for every v that arbitrary input can produce).
func verifC21(registry map[uint32]func() bin.Object, sample, n int) {
	var ids []uint32
	if sample > 0 && sample < len(registry) {
		// a seed-dependent sample: the ids in one residue class (no need to sort thousands of ids)
		step := uint32(len(registry) / sample)
		off := uint32(verifrt.Seed()) % step
		for id := range registry {
			if id%step == off {
				ids = append(ids, id)
			}
		}
	} else {
		for id := range registry {
			ids = append(ids, id)
		}
	}
	sort.Slice(ids, func(a, b int) bool { return ids[a] < ids[b] })
	id := ids[verifrt.Fork("type", len(ids))]
	raw := verifrt.NondetBytes("raw", n)
	verifrt.OpaqueAlloc(true)
	verifrt.AllocLimit(bin.PreallocateLimit + 64)
	in := &bin.Buffer{}
	in.PutID(id)
	in.Put(raw)
	v := registry[id]()
	// known finding C21-generic-query-nil: the request wrappers with a generic `!X` field
	// (invokeAfterMsg, invokeWithLayer, initConnection, ...) call Query.Decode on the nil
	// interface of a zero value: decoding any bytes into one panics.
	_, generic := v.(interface{ GetQuery() bin.Object })
	verifrt.Class("C21-generic-query-nil", generic)
	var err error
	ok := verifrt.NoPanic(func() { err = v.Decode(in) })
	verifrt.Assert(ok, "C21.decode.nopanic")
	if !ok || err != nil {
		verifrt.Reach("C21.decode.rejected")
		return
	}
	var e1 bin.Buffer
	ok = verifrt.NoPanic(func() { err = v.Encode(&e1) })
	verifrt.Assert(ok, "C21.encode.nopanic")
	if !ok || err != nil {
		// a decoded value the encoder refuses (e.g. a nil interface field) is reported, not hidden
		verifrt.Assert(err == nil, "C21.encode.accepts")
		return
	}
	verifrt.Assert(e1.Len()%4 == 0, "C21.encode.aligned")
	w := registry[id]()
	err = w.Decode(&bin.Buffer{Buf: append([]byte(nil), e1.Buf...)})
	verifrt.Assert(err == nil, "C21.roundtrip.decodes")
	if err != nil {
		return
	}
	// the value that comes back is the value that went out, field by field
	verifrt.Assert(verifrt.SameValue(v, w), "C21.roundtrip.equal")
	var e2 bin.Buffer
	err = w.Encode(&e2)
	verifrt.Assert(err == nil && string(e2.Buf) == string(e1.Buf), "C21.roundtrip.stable")
	verifrt.Reach("C21.roundtrip.ok")
}

// VerifC21_tg: a seed-dependent, evenly spread sample of the constructors of the Telegram API
// schema (tg): 64 of them, 12 arbitrary bytes each (thorough tier only; 64 x 16 bytes ran past 18 minutes with 140000 paths).
func VerifC21_tg() {
	sample, n := 16, 12
	if verifrt.Tier() == 1 {
		sample, n = 64, 12
	}
	verifC21(TypesConstructorMap(), sample, n)
}
