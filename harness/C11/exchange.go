//go:build verif

package crypto

import (
	"crypto/aes"
	"crypto/sha1"

	"github.com/gotd/ige"

	"github.com/gotd/td/internal/verifrt"
)

// c11rand hands out arbitrary bytes.
type c11rand struct{}

func (c11rand) Read(p []byte) (int, error) {
	copy(p, verifrt.NondetBytes("rand", len(p)))
	return len(p), nil
}

// VerifC11_answer: for every key, iv and block-aligned ciphertext (0, 16, 32 or 48 bytes; 64 in thorough),
// DecryptExchangeAnswer either fails or returns non-empty data whose SHA-1 equals the first 20
// decrypted bytes. AES-IGE and SHA-1 are uninterpreted (any functions with D(E(x))=x).
func VerifC11_answer() {
	sizes := 2
	if verifrt.Tier() == 1 {
		sizes = 3
	}
	n := 16 * verifrt.Fork("blocks", sizes+2)
	data := verifrt.NondetBytes("data", n)
	key := verifrt.NondetBytes("key", 32)
	iv := verifrt.NondetBytes("iv", 32)
	dst, err := DecryptExchangeAnswer(data, key, iv)
	if err != nil {
		verifrt.Reach("C11.answer.err")
		verifrt.Assert(dst == nil, "C11.answer.errnil")
		return
	}
	verifrt.Assert(dst != nil, "C11.answer.nonnil")
	if dst == nil {
		return
	}
	if n < 20 { // too short to hold a hash at all: must have been refused
		verifrt.Assert(false, "C11.answer.tooshort")
		return
	}
	// re-derive the plaintext the same way and compare the hash prefix
	blk, _ := aes.NewCipher(key)
	plain := make([]byte, n)
	ige.DecryptBlocks(blk, iv, plain, data)
	h := sha1.Sum(dst)
	verifrt.Assert(string(h[:]) == string(plain[:20]), "C11.answer.hash")
	verifrt.Assert(len(dst) <= n-20 && len(dst) > n-20-16, "C11.answer.len")
	verifrt.Reach("C11.answer.ok")
}

// VerifC11_roundtrip: DecryptExchangeAnswer(EncryptExchangeAnswer(a)) == a for every answer of
// length L (1..12 quick, 1..28 thorough) and every key/iv/padding, under the collision-free
// idealisation of SHA-1 (a longer candidate including padding bytes could otherwise collide).
func VerifC11_roundtrip() {
	verifrt.CollisionFree()
	max := 12
	if verifrt.Tier() == 1 {
		max = 28
	}
	l := 1 + verifrt.Fork("len", max)
	answer := verifrt.NondetBytes("answer", l)
	key := verifrt.NondetBytes("key", 32)
	iv := verifrt.NondetBytes("iv", 32)
	enc, err := EncryptExchangeAnswer(c11rand{}, answer, key, iv)
	verifrt.Assert(err == nil && len(enc)%16 == 0 && len(enc) >= l+20, "C11.roundtrip.enc")
	if err != nil {
		return
	}
	dec, err := DecryptExchangeAnswer(enc, key, iv)
	verifrt.Assert(err == nil, "C11.roundtrip.noerr")
	verifrt.Assert(string(dec) == string(answer), "C11.roundtrip.equal")
	verifrt.Reach("C11.roundtrip.end")
}
