//go:build verif

package proto

import (
	"time"

	"github.com/gotd/td/internal/verifrt"
)

// VerifC08_idgen: MessageIDGen.New against an arbitrary clock: k readings, each any instant
// between 2001 and 2037 (equal, decreasing, advancing by 1..3 ns, jumping — all allowed).
// Claims: every id is strictly greater than the previous one, divisible by 4 (client type),
// encodes a time no earlier than the previous id's time, and that time is close to the clock:
// not before (max reading so far) - 3 ns and not after (max reading so far) + 10 ns * calls.
func VerifC08_idgen() {
	k := 3
	if verifrt.Tier() == 1 {
		k = 4
	}
	var sec, nsec int64
	gen := NewMessageIDGen(func() time.Time { return time.Unix(sec, nsec) })
	var prev int64
	var maxNano int64
	for i := 0; i < k; i++ {
		sec = verifrt.NondetInt64("sec")
		nsec = verifrt.NondetInt64("nsec")
		// 2001-09-09 .. 2037-11-01; keeps sec<<32 inside int64
		verifrt.Assume(sec >= 1000000000 && sec < 2140000000 && nsec >= 0 && nsec < 1000000000)
		reading := sec*1000000000 + nsec
		if reading > maxNano {
			maxNano = reading
		}
		id := gen.New(MessageFromClient)
		verifrt.Assert(id%4 == 0, "C08.idgen.clienttype")
		verifrt.Assert(id > 0, "C08.idgen.positive")
		// decode the time the id claims: seconds in the high word, nanoseconds in the low word
		idNano := (id>>32)*1000000000 + int64(int32(id))
		verifrt.Assert(idNano >= maxNano-3, "C08.idgen.notbeforeclock")
		verifrt.Assert(idNano <= maxNano+10*int64(i+1), "C08.idgen.notafterclock")
		if i > 0 {
			verifrt.Class("C08-sub4ns-collision", id == prev)
			verifrt.Assert(id > prev, "C08.idgen.increasing")
			prevNano := (prev>>32)*1000000000 + int64(int32(prev))
			verifrt.Assert(idNano >= prevNano, "C08.idgen.timemonotone")
		}
		prev = id
	}
	verifrt.Reach("C08.idgen.end")
}
