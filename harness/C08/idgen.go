//go:build verif

package proto

import (
	"time"

	"github.com/gotd/td/internal/verifrt"
)

func verifC08Nano(id int64) int64 { return (id>>32)*1000000000 + int64(int32(id)) }

// VerifC08_step: one call of MessageIDGen.New from an ARBITRARY generator state (inductive step):
// g.nano is any value a history can have left behind (0 for a fresh generator, otherwise any
// instant between 2001 and 2037, not necessarily 4-aligned), the id returned last is the one the
// generator computes from that state, and the clock returns any instant in that range (equal,
// earlier, 1..3 ns later, far later).
// Claims: the new id is strictly greater than the last one, divisible by 4, positive, encodes a
// time no earlier than the last id's, not before the clock reading minus 3 ns (rounding), and not
// after max(reading, previous state + 10 ns); the state never moves backwards (so by induction
// "greater than the last" is "greater than all", and the id time is within 10 ns * calls of the
// largest reading).
func VerifC08_step() {
	var sec, nsec int64
	gen := NewMessageIDGen(func() time.Time { return time.Unix(sec, nsec) })
	fresh := verifrt.NondetBool("fresh")
	var prev int64
	if !fresh {
		s0 := verifrt.NondetInt64("state_sec")
		n0 := verifrt.NondetInt64("state_nsec")
		verifrt.Assume(s0 >= 1000000000 && s0 < 2140000000 && n0 >= 0 && n0 < 1000000000)
		gen.nano = s0*1000000000 + n0
		prev = int64(NewMessageIDNano(gen.nano, MessageFromClient))
	}
	state0 := gen.nano
	sec = verifrt.NondetInt64("sec")
	nsec = verifrt.NondetInt64("nsec")
	// 2001-09-09 .. 2037-11-01; keeps sec<<32 inside int64
	verifrt.Assume(sec >= 1000000000 && sec < 2140000000 && nsec >= 0 && nsec < 1000000000)
	reading := sec*1000000000 + nsec
	id := gen.New(MessageFromClient)
	verifrt.Assert(id%4 == 0, "C08.step.clienttype")
	verifrt.Assert(id > 0, "C08.step.positive")
	verifrt.Assert(gen.nano >= state0, "C08.step.statemonotone")
	verifrt.Assert(id > prev, "C08.step.increasing")
	idNano := verifC08Nano(id)
	verifrt.Assert(idNano >= reading-3, "C08.step.notbeforeclock")
	limit := reading
	if state0+10 > limit {
		limit = state0 + 10
	}
	verifrt.Assert(idNano <= limit, "C08.step.notafterclock")
	if !fresh {
		verifrt.Assert(idNano >= verifC08Nano(prev), "C08.step.timemonotone")
	}
	verifrt.Reach("C08.step.end")
}

// VerifC08_idgen: the same through the public API only: k calls on a fresh generator against an
// arbitrary clock (k readings, no ordering assumed).
func VerifC08_idgen() {
	k := 2
	if verifrt.Tier() == 1 {
		k = 3
	}
	var sec, nsec int64
	gen := NewMessageIDGen(func() time.Time { return time.Unix(sec, nsec) })
	var prev int64
	var maxNano int64
	for i := 0; i < k; i++ {
		sec = verifrt.NondetInt64("sec")
		nsec = verifrt.NondetInt64("nsec")
		verifrt.Assume(sec >= 1000000000 && sec < 2140000000 && nsec >= 0 && nsec < 1000000000)
		reading := sec*1000000000 + nsec
		if reading > maxNano {
			maxNano = reading
		}
		id := gen.New(MessageFromClient)
		verifrt.Assert(id%4 == 0, "C08.idgen.clienttype")
		idNano := verifC08Nano(id)
		verifrt.Assert(idNano >= maxNano-3, "C08.idgen.notbeforeclock")
		verifrt.Assert(idNano <= maxNano+10*int64(i+1), "C08.idgen.notafterclock")
		if i > 0 {
			verifrt.Assert(id > prev, "C08.idgen.increasing")
			verifrt.Assert(idNano >= verifC08Nano(prev), "C08.idgen.timemonotone")
		}
		prev = id
	}
	verifrt.Reach("C08.idgen.end")
}
