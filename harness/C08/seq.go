//go:build verif

package mtproto

import (
	"time"

	"github.com/gotd/td/internal/verifrt"
	"github.com/gotd/td/proto"
)

// VerifC08_seq: Conn.nextMsgSeq from an arbitrary counter state, k calls with arbitrary
// content/service flags and an arbitrary clock. Claims: content => seq = 2c+1, service => seq = 2c
// where c = content messages generated before; ids strictly increasing and client-typed.
func VerifC08_seq() {
	k := 3
	if verifrt.Tier() == 1 {
		k = 5
	}
	var sec, nsec int64
	c := &Conn{messageID: proto.NewMessageIDGen(func() time.Time { return time.Unix(sec, nsec) })}
	c0 := verifrt.NondetInt32("sent")
	verifrt.Assume(c0 >= 0 && c0 < 1<<29)
	c.sentContentMessages = c0
	count := c0
	var prev int64
	for i := 0; i < k; i++ {
		sec = verifrt.NondetInt64("sec")
		nsec = verifrt.NondetInt64("nsec")
		verifrt.Assume(sec >= 1000000000 && sec < 2140000000 && nsec >= 0 && nsec < 1000000000)
		content := verifrt.NondetBool("content")
		id, seq := c.nextMsgSeq(content)
		if content {
			verifrt.Assert(seq == 2*count+1, "C08.seq.content")
			count++
		} else {
			verifrt.Assert(seq == 2*count, "C08.seq.service")
		}
		verifrt.Assert(id%4 == 0, "C08.seq.clienttype")
		if i > 0 {
			verifrt.Assert(id > prev, "C08.seq.increasing")
		}
		prev = id
	}
	verifrt.Assert(c.sentContentMessages == count, "C08.seq.counter")
	verifrt.Reach("C08.seq.end")
}

type verifC08IDs struct {
	next    int64
	calls   int
	onEnter func(call int)
}

func (s *verifC08IDs) New(t proto.MessageType) int64 {
	s.calls++
	s.next += 4
	id := s.next // the id is fixed when the clock is read, i.e. on entry
	if s.onEnter != nil {
		s.onEnter(s.calls)
	}
	return id
}

// VerifC08_concurrent: two goroutines generate a message each; the second arrives while the first
// is inside the id generator (the only call-out of nextMsgSeq). Claim: id generation and sequence
// numbering are one atomic step: the message with the smaller id carries the smaller seq no, and
// the content numbering is 2c+1 / 2c in id order.
func VerifC08_concurrent() {
	// no synctest bubble here: the second goroutine blocks on a sync.Mutex, which a bubble does not
	// regard as durably blocked; Settle falls back to yielding natively
	func() {
		ids := &verifC08IDs{}
		c := &Conn{messageID: ids}
		contentA := verifrt.NondetBool("contentA")
		contentB := verifrt.NondetBool("contentB")
		var idB int64
		var seqB int32
		doneB := false
		ids.onEnter = func(call int) {
			if call == 1 {
				go func() {
					idB, seqB = c.nextMsgSeq(contentB)
					doneB = true
				}()
				verifrt.Settle()
			}
		}
		idA, seqA := c.nextMsgSeq(contentA)
		verifrt.Settle()
		verifrt.Assert(doneB, "C08.conc.returns")
		verifrt.Assert(idA != idB, "C08.conc.unique")
		// order by id
		firstSeq, secondSeq, firstContent, secondContent := seqA, seqB, contentA, contentB
		if idB < idA {
			firstSeq, secondSeq, firstContent, secondContent = seqB, seqA, contentB, contentA
		}
		want1 := int32(0)
		n := int32(0)
		if firstContent {
			want1 = 1
			n = 1
		}
		want2 := 2 * n
		if secondContent {
			want2++
		}
		verifrt.Assert(firstSeq == want1 && secondSeq == want2, "C08.conc.seqfollowsid")
		verifrt.Reach("C08.conc.end")
	}()
}
