//go:build verif

package mtproto

import (
	"time"

	"github.com/gotd/td/internal/verifrt"
	"github.com/gotd/td/proto"
)

// VerifC08_seq: Conn.nextMsgSeq from an arbitrary counter state, k calls with arbitrary
// content/service flags and an arbitrary clock. Claims: content => seq = 2c+1, service => seq = 2c
// where c = content messages generated before; ids strictly increasing and client-typed.
func VerifC08_seq() {
	k := 3
	if verifrt.Tier() == 1 {
		k = 5
	}
	var sec, nsec int64
	c := &Conn{messageID: proto.NewMessageIDGen(func() time.Time { return time.Unix(sec, nsec) })}
	c0 := verifrt.NondetInt32("sent")
	verifrt.Assume(c0 >= 0 && c0 < 1<<29)
	c.sentContentMessages = c0
	count := c0
	var prev int64
	for i := 0; i < k; i++ {
		sec = verifrt.NondetInt64("sec")
		nsec = verifrt.NondetInt64("nsec")
		verifrt.Assume(sec >= 1000000000 && sec < 2140000000 && nsec >= 0 && nsec < 1000000000)
		content := verifrt.NondetBool("content")
		id, seq := c.nextMsgSeq(content)
		if content {
			verifrt.Assert(seq == 2*count+1, "C08.seq.content")
			count++
		} else {
			verifrt.Assert(seq == 2*count, "C08.seq.service")
		}
		verifrt.Assert(id%4 == 0, "C08.seq.clienttype")
		if i > 0 {
			verifrt.Assert(id > prev, "C08.seq.increasing")
		}
		prev = id
	}
	verifrt.Assert(c.sentContentMessages == count, "C08.seq.counter")
	verifrt.Reach("C08.seq.end")
}
