//go:build verif

package rpc

import (
	"errors"

	"github.com/gotd/td/internal/verifrt"
)

// VerifC26_close: the C24 scenario (two concurrent calls, events injected at every call-out and
// quiescent point), always ended by ForceClose. Claims: every call returns once the engine is
// closed (no time passes); a call that was neither answered nor cancelled fails with an error
// that is ErrEngineClosed (safe to retry) iff its request had not been acknowledged, and with a
// different, non-nil error if it had; a cancelled call issues exactly one drop request iff its
// request had been sent, and no other call ever issues one.
func VerifC26_close() {
	verifrt.Bubble(func() {
		budget := 2
		if verifrt.Tier() == 1 {
			budget = 3
		}
		h := verifScenario(budget, 0)
		h.finish()
		for k := 0; k < 2; k++ {
			verifrt.Assert(h.returned[k], "C26.close.returns")
			err := h.errs[k]
			if !h.answered[k] && !h.canceled[k] {
				verifrt.Assert(err != nil, "C26.close.fails")
				if h.acked[k] {
					verifrt.Assert(!errors.Is(err, ErrEngineClosed), "C26.close.ackednotretryable")
					verifrt.Reach("C26.close.acked")
				} else {
					verifrt.Assert(errors.Is(err, ErrEngineClosed), "C26.close.unackedretryable")
					verifrt.Reach("C26.close.unacked")
				}
			}
			wantDrops := 0
			if h.cancelErr[k] != nil && err == h.cancelErr[k] && h.sendOK[k] > 0 {
				wantDrops = 1
				verifrt.Reach("C26.close.dropped")
			}
			verifrt.Assert(h.drops[k] == wantDrops, "C26.close.dropcount")
			if k == 0 && h.canceled[0] && len(h.tags[0]) == 0 && !h.gotErr[0] && !h.closedByScenario {
				verifrt.Assert(err == h.cancelErr[0], "C26.close.cancelerror")
			}
		}
		verifrt.Reach("C26.close.end")
	})
}
