//go:build verif

package telegram

import (
	"context"

	"github.com/gotd/td/bin"
	"github.com/gotd/td/internal/verifrt"
	"github.com/gotd/td/pool"
	"github.com/gotd/td/rpc"
)

type verifC26Nop struct{}

func (verifC26Nop) Encode(*bin.Buffer) error { return nil }
func (verifC26Nop) Decode(*bin.Buffer) error { return nil }

// VerifC26_classify_tg: the error a real rpc.Engine hands back when it is force-closed is classified
// by the pool as retryable on a new connection iff the request had not been acknowledged.
func VerifC26_classify_tg() {
	verifrt.Bubble(func() {
		acked := verifrt.NondetBool("acked")
		id := verifrt.NondetInt64("id")
		e := rpc.New(rpc.NopSend, rpc.Options{})
		var err error
		done := false
		go func() {
			err = e.Do(context.Background(), rpc.Request{MsgID: id, SeqNo: 1, Input: verifC26Nop{}, Output: verifC26Nop{}})
			done = true
		}()
		verifrt.Settle()
		if acked {
			e.NotifyAcks([]int64{id})
			verifrt.Settle()
		}
		go e.ForceClose()
		verifrt.Settle()
		verifrt.Assert(done && err != nil, "C26.classifytg.returns")
		verifrt.Assert(errRetryableOnNewConn(err) == !acked, "C26.classifytg.pool")
		verifrt.Assert(errRetryableOnNewConn(pool.ErrConnDead), "C26.classifytg.dead")
		verifrt.Reach("C26.classifytg.end")
	})
}
