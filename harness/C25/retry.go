//go:build verif

package rpc

import (
	"context"
	"errors"
	"time"

	"github.com/gotd/td/bin"
	"github.com/gotd/td/internal/verifrt"
)

type verifC25Send struct {
	id   int64
	seq  int32
	in   bin.Encoder
	at   time.Duration // virtual time since start
	after bool         // an ack or result had already been handed to the engine
}

type verifNopCodec struct{ decoded int }

func (*verifNopCodec) Encode(b *bin.Buffer) error  { return nil }
func (c *verifNopCodec) Decode(b *bin.Buffer) error { c.decoded++; return nil }

// VerifC25_retry: one Engine.Do call against the virtual clock. The server acknowledges (or
// answers, or stays silent) at a symbolic retry period; sending can fail at a symbolic attempt.
// Claims: exactly one transmission per elapsed retry interval until the ack/result, every
// transmission carries the identical (msg id, seq no, input); nothing is sent once an ack or a
// result has been handed to the engine; without ack the call fails with RetryLimitReachedErr after
// exactly maxRetries retransmissions.
func VerifC25_retry() {
	verifrt.Bubble(func() {
		const interval = 10 * time.Second
		maxRetries := 1 + verifrt.Fork("maxRetries", 3)
		event := verifrt.Fork("event", 3)         // 0 ack then result, 1 result only, 2 silence
		eventAt := verifrt.Fork("eventAt", 4)     // in which retry period the event happens (0 = before the first timer)
		failAt := verifrt.Fork("failAt", 5) - 1   // which transmission fails (-1 = none)
		id := verifrt.NondetInt64("msgid")
		seq := verifrt.NondetInt32("seq")
		in := &verifNopCodec{}
		out := &verifNopCodec{}
		start := time.Now()
		var sends []verifC25Send
		delivered := false
		sendErr := errors.New("verif: send failed")
		e := New(func(ctx context.Context, msgID int64, seqNo int32, in bin.Encoder) error {
			sends = append(sends, verifC25Send{msgID, seqNo, in, time.Since(start), delivered})
			if len(sends)-1 == failAt {
				return sendErr
			}
			return nil
		}, Options{RetryInterval: interval, MaxRetries: maxRetries})
		var doErr error
		returned := false
		go func() {
			doErr = e.Do(context.Background(), Request{MsgID: id, SeqNo: seq, Input: in, Output: out})
			returned = true
		}()
		verifrt.Settle()
		periods := 0
		for p := 0; p < 5 && !returned; p++ {
			if p == eventAt && event != 2 {
				delivered = true
				if event == 0 {
					// the ack may come in a batch behind an id nobody waits for (any more)
					if verifrt.NondetBool("batch") {
						stale := verifrt.NondetInt64("stale")
						verifrt.Assume(stale != id)
						e.NotifyAcks([]int64{stale, id})
					} else {
						e.NotifyAcks([]int64{id})
					}
					verifrt.Settle()
					// an acknowledged request is not retransmitted, however long the result takes
					before := len(sends)
					verifrt.Advance(3 * interval)
					verifrt.Assert(len(sends) == before, "C25.retry.nosendafterack")
				}
				_ = e.NotifyResult(id, &bin.Buffer{})
				verifrt.Settle()
				break
			}
			verifrt.Advance(interval)
			periods++
		}
		verifrt.Settle()
		verifrt.Assert(returned, "C25.retry.returns")
		for k, s := range sends {
			verifrt.Assert(s.id == id && s.seq == seq && s.in == bin.Encoder(in), "C25.retry.sameidentity")
			verifrt.Assert(!s.after, "C25.retry.nosendafterack")
			verifrt.Assert(s.at == time.Duration(k)*interval, "C25.retry.oneperinterval")
		}
		verifrt.Assert(len(sends) <= 1+maxRetries, "C25.retry.bounded")
		failed := failAt >= 0 && failAt < len(sends)
		switch {
		case failed:
			verifrt.Assert(doErr != nil && errors.Is(doErr, sendErr), "C25.retry.senderror")
			verifrt.Reach("C25.retry.sendfailed")
		case event != 2 && eventAt < maxRetries && (failAt < 0 || failAt > eventAt):
			// acknowledged/answered in time
			verifrt.Assert(doErr == nil, "C25.retry.success")
			verifrt.Assert(len(sends) == 1+eventAt, "C25.retry.count")
			verifrt.Assert(out.decoded == 1, "C25.retry.decodedonce")
			verifrt.Reach("C25.retry.acked")
		default:
			var lim *RetryLimitReachedErr
			verifrt.Assert(errors.As(doErr, &lim), "C25.retry.limiterror")
			verifrt.Assert(len(sends) == 1+maxRetries, "C25.retry.limitcount")
			verifrt.Reach("C25.retry.limit")
		}
		verifrt.Reach("C25.retry.end")
	})
}
