//go:build verif

package obfuscated2

import (
	"encoding/binary"
	"io"

	"github.com/gotd/td/internal/verifrt"
	"github.com/gotd/td/mtproxy"
)

// c18rand hands out arbitrary bytes; at most two 64-byte attempts (a third rejection of the
// init block is assumed away: probability 2^-24 per attempt).
type c18rand struct{ attempts int }

func (r *c18rand) Read(p []byte) (int, error) {
	r.attempts++
	verifrt.Assume(r.attempts <= 2)
	copy(p, verifrt.NondetBytes("rand", len(p)))
	return len(p), nil
}

// c18pipe is one direction of the connection: writes append, reads are chunked.
type c18pipe struct {
	buf    []byte
	pos    int
	budget *int
}

func (p *c18pipe) Write(b []byte) (int, error) { p.buf = append(p.buf, b...); return len(b), nil }

func (p *c18pipe) Read(b []byte) (int, error) {
	if len(b) == 0 {
		return 0, nil
	}
	if p.pos >= len(p.buf) {
		return 0, io.EOF
	}
	n := copy(b, p.buf[p.pos:])
	if *p.budget > 0 && n > 1 {
		*p.budget--
		switch verifrt.Fork("chunk", 3) {
		case 0:
			n = 1
		case 1:
			n = (n + 1) / 2
		}
	}
	p.pos += n
	return n, nil
}

type c18conn struct {
	r *c18pipe
	w *c18pipe
}

func (c c18conn) Read(b []byte) (int, error)  { return c.r.Read(b) }
func (c c18conn) Write(b []byte) (int, error) { return c.w.Write(b) }

func c18readAll(r io.Reader, n int) ([]byte, error) {
	out := make([]byte, 0, n)
	buf := make([]byte, 3)
	for len(out) < n {
		k, err := r.Read(buf)
		if err != nil {
			return out, err
		}
		out = append(out, buf[:k]...)
	}
	return out, nil
}

// VerifC18_handshake: client Handshake + server Accept agree on (tag, uint16(dc)); the header
// avoids every reserved prefix; payloads written in either direction (0..4 bytes, written in two
// pieces) are read back unchanged under chunked reads.
// AES is an uninterpreted permutation pair, SHA-256 an uninterpreted function.
func VerifC18_handshake() {
	budget := 2
	c2s := &c18pipe{budget: &budget}
	s2c := &c18pipe{budget: &budget}
	var tag [4]byte
	copy(tag[:], verifrt.NondetBytes("tag", 4))
	dc := int(verifrt.NondetInt16("dc"))
	var secret []byte
	if verifrt.Fork("secret", 2) == 1 {
		secret = verifrt.NondetBytes("secret", 16)
	}
	cli := NewObfuscated2(&c18rand{}, c18conn{r: s2c, w: c2s})
	err := cli.Handshake(tag, dc, mtproxy.Secret{Secret: secret})
	verifrt.Assert(err == nil, "C18.hs.client")
	if err != nil {
		return
	}
	h := c2s.buf
	verifrt.Assert(len(h) == 64, "C18.hs.headerlen")
	if len(h) != 64 {
		return
	}
	first := binary.LittleEndian.Uint32(h[0:4])
	verifrt.Assert(h[0] != 0xef, "C18.hs.notabridged")
	verifrt.Assert(first != 0x44414548 && first != 0x54534f50 && first != 0x20544547 && first != 0x4954504f, "C18.hs.nothttp")
	verifrt.Assert(first != 0x02010316 && first != 0xdddddddd && first != 0xeeeeeeee, "C18.hs.nottransport")
	verifrt.Assert(binary.LittleEndian.Uint32(h[4:8]) != 0, "C18.hs.secondword")

	srv, meta, err := Accept(c18conn{r: c2s, w: s2c}, secret)
	verifrt.Assert(err == nil, "C18.hs.accept")
	if err != nil {
		return
	}
	verifrt.Assert(meta.Protocol == tag, "C18.hs.tag")
	verifrt.Assert(meta.DC == uint16(dc), "C18.hs.dc")

	// client -> server
	n1 := verifrt.Fork("n1", 5)
	p1 := verifrt.NondetBytes("c2s", n1)
	cut := n1 / 2
	w1, e1 := cli.Write(p1[:cut])
	w2, e2 := cli.Write(p1[cut:])
	verifrt.Assert(e1 == nil && e2 == nil && w1+w2 == n1, "C18.data.write")
	got, err := c18readAll(srv, n1)
	verifrt.Assert(err == nil && string(got) == string(p1), "C18.data.c2s")
	// server -> client
	n2 := verifrt.Fork("n2", 5)
	p2 := verifrt.NondetBytes("s2c", n2)
	_, e3 := srv.Write(p2)
	verifrt.Assert(e3 == nil, "C18.data.write")
	got2, err := c18readAll(cli, n2)
	verifrt.Assert(err == nil && string(got2) == string(p2), "C18.data.s2c")
	verifrt.Reach("C18.hs.end")
}
