//go:build verif

package codec

import (
	"io"

	"github.com/gotd/td/bin"
	"github.com/gotd/td/internal/verifrt"
)

// c16sink collects everything written.
type c16sink struct{ data []byte }

func (s *c16sink) Write(p []byte) (int, error) { s.data = append(s.data, p...); return len(p), nil }

// c16reader serves the stream in chunks chosen by the engine: for the first `budget` reads the
// chunk size is one of {1, half, all-but-one, all} of what is asked/available.
type c16reader struct {
	data   []byte
	pos    int
	budget int
}

func (r *c16reader) Read(p []byte) (int, error) {
	if len(p) == 0 {
		return 0, nil
	}
	if r.pos >= len(r.data) {
		return 0, io.EOF
	}
	n := len(p)
	if rem := len(r.data) - r.pos; n > rem {
		n = rem
	}
	if r.budget > 0 && n > 1 {
		r.budget--
		switch verifrt.Fork("chunk", 4) {
		case 0:
			n = 1
		case 1:
			n = (n + 1) / 2
		case 2:
			n = n - 1
		}
	}
	copy(p, r.data[r.pos:r.pos+n])
	r.pos += n
	return n, nil
}

type c16rand struct{}

func (c16rand) Read(p []byte) (int, error) {
	copy(p, verifrt.NondetBytes("rand", len(p)))
	return len(p), nil
}

func c16len() int {
	if verifrt.Tier() == 1 {
		return []int{8, 12, 24, 504, 508, 512}[verifrt.Fork("len", 6)]
	}
	return []int{8, 12, 508}[verifrt.Fork("len", 3)]
}

// VerifC16_roundtrip: two frames written by a codec and read back through an arbitrarily chunked
// stream come out identical and in order with nothing left over; header included.
// Bound: 4 codecs; frame lengths {8,12,508} quick / {8,12,24,504,508,512} thorough (508 = 127
// words: abridged long form); contents arbitrary; first 3 reads chunked 4 ways.
func VerifC16_roundtrip() {
	which := verifrt.Fork("codec", 4)
	var wc, rc Codec
	switch which {
	case 0:
		wc, rc = Abridged{}, Abridged{}
	case 1:
		wc, rc = Intermediate{}, Intermediate{}
	case 2:
		wc, rc = PaddedIntermediate{}, PaddedIntermediate{}
	case 3:
		wc, rc = &Full{}, &Full{}
	}
	sink := &c16sink{}
	verifrt.Assert(wc.WriteHeader(sink) == nil, "C16.rt.writeheader")
	var frames [2][]byte
	for i := range frames {
		l := c16len()
		frames[i] = verifrt.NondetBytes("frame", l)
		b := &bin.Buffer{Buf: append([]byte(nil), frames[i]...)}
		var err error
		if which == 2 {
			err = writePaddedIntermediate(c16rand{}, sink, b)
		} else {
			err = wc.Write(sink, b)
		}
		verifrt.Assert(err == nil, "C16.rt.write")
		if err != nil {
			return
		}
	}
	r := &c16reader{data: sink.data, budget: 3}
	verifrt.Assert(rc.ReadHeader(r) == nil, "C16.rt.readheader")
	for i := range frames {
		b := &bin.Buffer{}
		err := rc.Read(r, b)
		verifrt.Assert(err == nil, "C16.rt.read")
		if err != nil {
			return
		}
		verifrt.Assert(string(b.Buf) == string(frames[i]), "C16.rt.equal")
	}
	verifrt.Assert(r.pos == len(r.data), "C16.rt.leftover")
	verifrt.Reach("C16.rt.end")
}

// VerifC16_errorcode: a 4-byte frame surfaces as *ProtocolErr with Code = -value for every
// 32-bit value and every codec.
func VerifC16_errorcode() {
	which := verifrt.Fork("codec", 4)
	code := verifrt.NondetInt32("code")
	sink := &c16sink{}
	b := &bin.Buffer{}
	b.PutInt32(code)
	var rc Codec
	switch which {
	case 0:
		rc = Abridged{}
		verifrt.Assert(writeAbridged(sink, b) == nil, "C16.err.write")
	case 1:
		rc = Intermediate{}
		verifrt.Assert(writeIntermediate(sink, b) == nil, "C16.err.write")
	case 2:
		rc = PaddedIntermediate{}
		verifrt.Assert(writeIntermediate(sink, b) == nil, "C16.err.write")
	case 3:
		rc = &Full{}
		verifrt.Assert(writeFull(sink, 0, b) == nil, "C16.err.write")
	}
	out := &bin.Buffer{}
	err := rc.Read(&c16reader{data: sink.data}, out)
	pe, ok := err.(*ProtocolErr)
	verifrt.Assert(ok, "C16.err.type")
	if ok {
		verifrt.Assert(pe.Code == -code, "C16.err.code")
	}
	verifrt.Reach("C16.err.end")
}
