//go:build verif

package codec

import (
	"hash/crc32"
	"io"

	"github.com/gotd/td/bin"
	"github.com/gotd/td/internal/verifrt"
)

// c16sink collects everything written.
type c16sink struct{ data []byte }

func (s *c16sink) Write(p []byte) (int, error) { s.data = append(s.data, p...); return len(p), nil }

// c16reader serves the stream in chunks chosen by the engine: for the first `budget` reads the
// chunk size is one of {1, half, all-but-one, all} of what is asked/available.
type c16reader struct {
	data   []byte
	pos    int
	budget int
}

func (r *c16reader) Read(p []byte) (int, error) {
	if len(p) == 0 {
		return 0, nil
	}
	if r.pos >= len(r.data) {
		return 0, io.EOF
	}
	n := len(p)
	if rem := len(r.data) - r.pos; n > rem {
		n = rem
	}
	if r.budget > 0 && n > 1 {
		r.budget--
		switch verifrt.Fork("chunk", 4) {
		case 0:
			n = 1
		case 1:
			n = (n + 1) / 2
		case 2:
			n = n - 1
		}
	}
	copy(p, r.data[r.pos:r.pos+n])
	r.pos += n
	return n, nil
}

type c16rand struct{}

func (c16rand) Read(p []byte) (int, error) {
	copy(p, verifrt.NondetBytes("rand", len(p)))
	return len(p), nil
}

func c16len() int {
	if verifrt.Tier() == 1 {
		return []int{8, 12, 24, 504, 508, 512}[verifrt.Fork("len", 6)]
	}
	return []int{8, 12, 508}[verifrt.Fork("len", 3)]
}

// VerifC16_roundtrip: two frames written by a codec and read back through an arbitrarily chunked
// stream come out identical and in order with nothing left over; header included.
// Bound: 4 codecs; frame lengths {8,12,508} quick / {8,12,24,504,508,512} thorough (508 = 127
// words: abridged long form); contents arbitrary; first 3 reads chunked 4 ways.
func VerifC16_roundtrip() {
	which := verifrt.Fork("codec", 4)
	var wc, rc Codec
	switch which {
	case 0:
		wc, rc = Abridged{}, Abridged{}
	case 1:
		wc, rc = Intermediate{}, Intermediate{}
	case 2:
		wc, rc = PaddedIntermediate{}, PaddedIntermediate{}
	case 3:
		wc, rc = &Full{}, &Full{}
	}
	sink := &c16sink{}
	verifrt.Assert(wc.WriteHeader(sink) == nil, "C16.rt.writeheader")
	var frames [2][]byte
	for i := range frames {
		l := c16len()
		frames[i] = verifrt.NondetBytes("frame", l)
		b := &bin.Buffer{Buf: append([]byte(nil), frames[i]...)}
		var err error
		if which == 2 {
			err = writePaddedIntermediate(c16rand{}, sink, b)
		} else {
			err = wc.Write(sink, b)
		}
		verifrt.Assert(err == nil, "C16.rt.write")
		if err != nil {
			return
		}
	}
	// the bytes on the wire are the ones the transport specification prescribes (reference
	// encoder written from the specification text, not from the code)
	if !c16wire(which, frames[:], sink.data) {
		return
	}
	r := &c16reader{data: sink.data, budget: 3}
	verifrt.Assert(rc.ReadHeader(r) == nil, "C16.rt.readheader")
	for i := range frames {
		b := &bin.Buffer{}
		err := rc.Read(r, b)
		verifrt.Assert(err == nil, "C16.rt.read")
		if err != nil {
			return
		}
		verifrt.Assert(string(b.Buf) == string(frames[i]), "C16.rt.equal")
	}
	verifrt.Assert(r.pos == len(r.data), "C16.rt.leftover")
	verifrt.Reach("C16.rt.end")
}

// VerifC16_errorcode: a 4-byte frame surfaces as *ProtocolErr with Code = -value for every
// 32-bit value and every codec.
func VerifC16_errorcode() {
	which := verifrt.Fork("codec", 4)
	code := verifrt.NondetInt32("code")
	sink := &c16sink{}
	b := &bin.Buffer{}
	b.PutInt32(code)
	var rc Codec
	switch which {
	case 0:
		rc = Abridged{}
		verifrt.Assert(writeAbridged(sink, b) == nil, "C16.err.write")
	case 1:
		rc = Intermediate{}
		verifrt.Assert(writeIntermediate(sink, b) == nil, "C16.err.write")
	case 2:
		rc = PaddedIntermediate{}
		verifrt.Assert(writeIntermediate(sink, b) == nil, "C16.err.write")
	case 3:
		rc = &Full{}
		verifrt.Assert(writeFull(sink, 0, b) == nil, "C16.err.write")
	}
	out := &bin.Buffer{}
	err := rc.Read(&c16reader{data: sink.data}, out)
	pe, ok := err.(*ProtocolErr)
	verifrt.Assert(ok, "C16.err.type")
	if ok {
		verifrt.Assert(pe.Code == -code, "C16.err.code")
	}
	verifrt.Reach("C16.err.end")
}

func c16le32(v int) []byte { return []byte{byte(v), byte(v >> 8), byte(v >> 16), byte(v >> 24)} }

// c16wire compares the written stream with the specification (core.telegram.org/mtproto/
// mtproto-transports): abridged = 0xef, then per frame len/4 in one byte if < 127, else 0x7f and
// len/4 in 3 bytes LE; intermediate = 0xeeeeeeee, then 4-byte LE length; padded intermediate =
// 0xdddddddd, then 4-byte LE length of payload plus 0..15 padding bytes; full = no tag, per frame
// 4-byte length (payload+12), 4-byte sequence number from 0, payload, CRC32 of all before.
func c16wire(which int, frames [][]byte, wire []byte) bool {
	var want []byte
	switch which {
	case 0:
		want = append(want, 0xef)
		for _, f := range frames {
			if w := len(f) / 4; w < 127 {
				want = append(want, byte(w))
			} else {
				want = append(want, 0x7f, byte(w), byte(w>>8), byte(w>>16))
			}
			want = append(want, f...)
		}
	case 1:
		want = append(want, 0xee, 0xee, 0xee, 0xee)
		for _, f := range frames {
			want = append(want, c16le32(len(f))...)
			want = append(want, f...)
		}
	case 2:
		// random padding: structural comparison
		ok := len(wire) >= 4 && string(wire[:4]) == "\xdd\xdd\xdd\xdd"
		pos := 4
		for _, f := range frames {
			if !ok || len(wire) < pos+4 {
				ok = false
				break
			}
			l := int(wire[pos]) | int(wire[pos+1])<<8 | int(wire[pos+2])<<16 | int(wire[pos+3])<<24
			pos += 4
			if l < len(f) || l-len(f) > 15 || len(wire) < pos+l || string(wire[pos:pos+len(f)]) != string(f) {
				ok = false
				break
			}
			pos += l
		}
		ok = ok && pos == len(wire)
		verifrt.Assert(ok, "C16.rt.wire")
		return ok
	case 3:
		for i, f := range frames {
			start := len(want)
			want = append(want, c16le32(len(f)+12)...)
			want = append(want, c16le32(i)...)
			want = append(want, f...)
			want = append(want, c16le32(int(crc32.ChecksumIEEE(want[start:])))...)
		}
	}
	ok := string(wire) == string(want)
	verifrt.Assert(ok, "C16.rt.wire")
	return ok
}
