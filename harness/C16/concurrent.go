//go:build verif

package transport

import (
	"context"
	"io"
	"net"
	"time"

	"github.com/gotd/td/bin"
	"github.com/gotd/td/internal/verifrt"
	"github.com/gotd/td/proto/codec"
)

// c16conn is a net.Conn whose Write/Read call back into the harness before doing their work, so
// that a second sender/receiver can be started while the first one is in the middle of a frame.
type c16conn struct {
	out     []byte
	in      []byte
	pos     int
	writes  int
	reads   int
	onWrite func(n int)
	onRead  func(n int)
}

func (c *c16conn) Write(p []byte) (int, error) {
	c.writes++
	if c.onWrite != nil {
		c.onWrite(c.writes)
	}
	c.out = append(c.out, p...)
	return len(p), nil
}

func (c *c16conn) Read(p []byte) (int, error) {
	c.reads++
	if c.onRead != nil {
		c.onRead(c.reads)
	}
	if c.pos >= len(c.in) {
		return 0, io.EOF
	}
	n := copy(p, c.in[c.pos:])
	c.pos += n
	return n, nil
}

func (c *c16conn) Close() error                       { return nil }
func (c *c16conn) LocalAddr() net.Addr                { return nil }
func (c *c16conn) RemoteAddr() net.Addr               { return nil }
func (c *c16conn) SetDeadline(t time.Time) error      { return nil }
func (c *c16conn) SetReadDeadline(t time.Time) error  { return nil }
func (c *c16conn) SetWriteDeadline(t time.Time) error { return nil }

func c16codec(which int) Codec {
	switch which {
	case 0:
		return codec.Abridged{}
	case 1:
		return codec.Intermediate{}
	case 2:
		return codec.PaddedIntermediate{}
	}
	return &codec.Full{}
}

// VerifC16_concurrent_send: two goroutines send one frame each on the same connection; the
// second sender arrives while the first is inside its k-th write to the socket (k symbolic; this
// is where the operating system would let another thread in). Claim: the bytes on the wire are
// two whole frames — the receiver's codec reads back exactly the two payloads, each once.
func VerifC16_concurrent_send() {
	// no synctest bubble here: the second goroutine blocks on a sync.Mutex, which a bubble does not
	// regard as durably blocked; Settle falls back to yielding natively
	func() {
		which := []int{0, 1, 3}[verifrt.Fork("codec", 3)] // padded intermediate draws from crypto/rand: same framing code as intermediate
		at := 1 + verifrt.Fork("at", 3)
		fa := verifrt.NondetBytes("a", 8)
		fb := verifrt.NondetBytes("b", 12)
		nc := &c16conn{}
		c := &connection{conn: nc, codec: c16codec(which)}
		bDone := false
		var bErr error
		started := false
		nc.onWrite = func(n int) {
			if n == at && !started {
				started = true
				go func() {
					bErr = c.Send(context.Background(), &bin.Buffer{Buf: append([]byte(nil), fb...)})
					bDone = true
				}()
				verifrt.Settle()
			}
		}
		aErr := c.Send(context.Background(), &bin.Buffer{Buf: append([]byte(nil), fa...)})
		if !started {
			started = true
			bErr = c.Send(context.Background(), &bin.Buffer{Buf: append([]byte(nil), fb...)})
			bDone = true
		}
		verifrt.Settle()
		verifrt.Assert(aErr == nil && bDone && bErr == nil, "C16.csend.noerr")
		// read the wire back
		rd := &c16conn{in: nc.out}
		rc := &connection{conn: rd, codec: c16codec(which)}
		var got [2]bin.Buffer
		for i := range got {
			err := rc.Recv(context.Background(), &got[i])
			verifrt.Assert(err == nil, "C16.csend.readable")
			if err != nil {
				return
			}
		}
		g0, g1 := string(got[0].Buf), string(got[1].Buf)
		verifrt.Assert((g0 == string(fa) && g1 == string(fb)) || (g0 == string(fb) && g1 == string(fa)), "C16.csend.wholeframes")
		verifrt.Assert(rd.pos == len(rd.in), "C16.csend.leftover")
		verifrt.Reach("C16.csend.end")
	}()
}

// VerifC16_concurrent_recv: two goroutines receive on the same connection; the second arrives
// while the first is inside its k-th read. Claim: each receives one whole frame of the two sent.
func VerifC16_concurrent_recv() {
	// no synctest bubble here: the second goroutine blocks on a sync.Mutex, which a bubble does not
	// regard as durably blocked; Settle falls back to yielding natively
	func() {
		which := []int{0, 1, 3}[verifrt.Fork("codec", 3)] // padded intermediate draws from crypto/rand: same framing code as intermediate
		at := 1 + verifrt.Fork("at", 3)
		fa := verifrt.NondetBytes("a", 8)
		fb := verifrt.NondetBytes("b", 12)
		wr := &c16conn{}
		wc := &connection{conn: wr, codec: c16codec(which)}
		verifrt.Assert(wc.Send(context.Background(), &bin.Buffer{Buf: append([]byte(nil), fa...)}) == nil, "C16.crecv.send")
		verifrt.Assert(wc.Send(context.Background(), &bin.Buffer{Buf: append([]byte(nil), fb...)}) == nil, "C16.crecv.send")
		nc := &c16conn{in: wr.out}
		c := &connection{conn: nc, codec: c16codec(which)}
		var second bin.Buffer
		var secondErr error
		secondDone, started := false, false
		nc.onRead = func(n int) {
			if n == at && !started {
				started = true
				go func() {
					secondErr = c.Recv(context.Background(), &second)
					secondDone = true
				}()
				verifrt.Settle()
			}
		}
		var first bin.Buffer
		firstErr := c.Recv(context.Background(), &first)
		if !started {
			started = true
			secondErr = c.Recv(context.Background(), &second)
			secondDone = true
		}
		verifrt.Settle()
		verifrt.Assert(firstErr == nil && secondDone && secondErr == nil, "C16.crecv.noerr")
		g0, g1 := string(first.Buf), string(second.Buf)
		verifrt.Assert((g0 == string(fa) && g1 == string(fb)) || (g0 == string(fb) && g1 == string(fa)), "C16.crecv.wholeframes")
		verifrt.Reach("C16.crecv.end")
	}()
}
