//go:build verif

package transport

import (
	"io"

	"github.com/gotd/td/internal/verifrt"
	"github.com/gotd/td/proto/codec"
)

type c16stream struct {
	data []byte
	pos  int
}

func (r *c16stream) Read(p []byte) (int, error) {
	if r.pos >= len(r.data) {
		return 0, io.EOF
	}
	n := copy(p, r.data[r.pos:])
	if n > 1 && verifrt.NondetBool("short") {
		n = 1
	}
	r.pos += n
	return n, nil
}

// VerifC16_detect: the listener picks the codec whose tag the first bytes carry and leaves the
// stream right after the tag (for Full, which has no tag, the 4 bytes are replayed).
// All 2^32 first words.
func VerifC16_detect() {
	first := verifrt.NondetBytes("first", 4)
	rest := verifrt.NondetBytes("rest", 4)
	s := &c16stream{data: append(append([]byte{}, first...), rest...)}
	c, r, err := detectCodec(s)
	verifrt.Assert(err == nil, "C16.detect.noerr")
	if err != nil {
		return
	}
	var next [4]byte
	_, rerr := io.ReadFull(r, next[:])
	verifrt.Assert(rerr == nil, "C16.detect.readable")
	isIM := string(first) == string(codec.IntermediateClientStart[:])
	isPD := string(first) == string(codec.PaddedIntermediateClientStart[:])
	switch {
	case first[0] == 0xef:
		_, ok := c.(codec.Abridged)
		verifrt.Assert(ok, "C16.detect.abridged")
		verifrt.Assert(string(next[:3]) == string(first[1:]) && next[3] == rest[0], "C16.detect.position")
		verifrt.Reach("C16.detect.abridged")
	case isIM:
		_, ok := c.(codec.Intermediate)
		verifrt.Assert(ok, "C16.detect.intermediate")
		verifrt.Assert(string(next[:]) == string(rest), "C16.detect.position")
		verifrt.Reach("C16.detect.intermediate")
	case isPD:
		_, ok := c.(codec.PaddedIntermediate)
		verifrt.Assert(ok, "C16.detect.padded")
		verifrt.Assert(string(next[:]) == string(rest), "C16.detect.position")
		verifrt.Reach("C16.detect.padded")
	default:
		_, ok := c.(*codec.Full)
		verifrt.Assert(ok, "C16.detect.full")
		verifrt.Assert(string(next[:]) == string(first), "C16.detect.position")
		verifrt.Reach("C16.detect.full")
	}
	verifrt.Reach("C16.detect.end")
}
