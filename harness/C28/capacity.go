//go:build verif

package pool

import "github.com/gotd/td/internal/verifrt"

// VerifC28_capacity: at every quiescent point every connection that is up has exactly one owner (a
// caller using it, the free list, or a waiter's hand-over channel) — in particular a connection
// whose creator gave up while it was coming up must end up idle and available once it is ready —,
// the pool's counter equals the number of live connections (up or coming up), and nobody waits in
// the queue while a connection is idle or a slot is free.
func VerifC28_capacity() {
	verifrt.Bubble(func() {
		h := verifPoolScenario(verifPoolSteps(), func(h *verifPool, step int) {
			liveReady, connecting, inUse, free, handing, waiters, total := h.accounting()
			verifrt.Assert(total == int64(liveReady+connecting), "C28.capacity.total")
			verifrt.Assert(liveReady == inUse+free+handing, "C28.capacity.owned")
			if waiters > 0 {
				verifrt.Assert(free == 0 && total >= h.max, "C28.capacity.served")
			}
		})
		h.stop()
		verifrt.Reach("C28.capacity.end")
	})
}
