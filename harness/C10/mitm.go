//go:build verif

package exchange

import (
	"context"
	"crypto/rsa"
	"math/big"
	"time"

	"github.com/gotd/td/crypto"
	"github.com/gotd/td/internal/verifrt"
)

const verifKey2N = "a2d7f39859a933af50d5715e84da8590c7b9fddc4e4eb0f5e781e72bb4de1dd8c8bc00b623e0929dbef4f4daa3931c9b1751172ae4ef8730301b51907b143278418d65766522de0d5fb2926386e09a2025dbdbe9f5f22ec7f608b259afd9ee38ddeae30927b740d82c71ee6e3bcfba5345912a81f9e86e49ef62b5010612f2f1af774f96a9872087ac892a3d145250dc0f9b64782516ab8926b907ace637c96cf7271e699ced1a463d18abddbcbf569cf903cfa8ea47d0da6f8c8697ab322ecc727e8040b514413cdf522bdc4aebb03a28bf60ea1205c6e4d16c71e5da9059701da3df7f44db1c0ffed9fee5fba5871f1f6633889ecc86030ea8e86c6f5a701d"
const verifKey2D = "87a350a789a74201b956d00366ad8dab3671595e736b6042b2fea4cae6f04bf411df66c84fc1f2dda9fce7266631571667a9879e96ea5cb46a9d96a6bd9de91bf99e08f140f475f8b5c94bddd2aeaa3234d698aa9bcd89e1ccb119bd529837b0ee4783ac5084776298429dd2fbc6def0157600ee1a76dbc681baba018c49a4490f2c325e10de66cca495b6d1abad79586ba897b40948de77bb2e29d9e4c55736ec2636040bceca23f3fc03be3f7957f3741908ff51bd25f4e4fa06e4afb03ad1bb74406eebad3e92f18acd9cc9e8d71b56064a37622ef5ab5e97675d3c91cef237b61da1b9b323aeb9e2e7813a716efafc2ef4694440e5e1b0e1332bd59e2981"

// verifBadRNG: a server that holds the trusted key but proposes unsafe DH parameters.
type verifBadRNG struct {
	TestServerRNG
	prime int // 0 = the real prime; 1 = p+2 (composite); 2 = p>>1 (2047 bits); 3 = 2p+1 style 2049 bits
	ga    int // 0 = honest; 1 = 0; 2 = 1; 3 = p-1; 4 = p; 5 = 2^1984; 6 = p-2^1984; 7, 8 = g^1, g^2 (a consistent but tiny exponent: below the 2^1984 safety margin)
}

func (r verifBadRNG) DhPrime() (*big.Int, error) {
	p, err := r.TestServerRNG.DhPrime()
	if err != nil {
		return nil, err
	}
	switch r.prime {
	case 1:
		p.Add(p, big.NewInt(2))
	case 2:
		p.Rsh(p, 1)
	case 3:
		p.Lsh(p, 1).Add(p, big.NewInt(1))
	}
	return p, nil
}

func (r verifBadRNG) GA(g int, dhPrime *big.Int) (a, ga *big.Int, err error) {
	if r.ga == 0 {
		if r.prime != 0 {
			// honest g_a for whatever prime was proposed (the generator check is the client's job)
			a = big.NewInt(0x1234567)
			return a, new(big.Int).Exp(big.NewInt(int64(g)), a, dhPrime), nil
		}
		return r.TestServerRNG.GA(g, dhPrime)
	}
	a = big.NewInt(5)
	lim := new(big.Int).Lsh(big.NewInt(1), crypto.RSAKeyBits-64)
	if r.ga >= 7 {
		a = big.NewInt(int64(r.ga - 6))
		return a, new(big.Int).Exp(big.NewInt(int64(g)), a, dhPrime), nil
	}
	switch r.ga {
	case 1:
		ga = big.NewInt(0)
	case 2:
		ga = big.NewInt(1)
	case 3:
		ga = new(big.Int).Sub(dhPrime, big.NewInt(1))
	case 4:
		ga = new(big.Int).Set(dhPrime)
	case 5:
		ga = lim
	default:
		ga = new(big.Int).Sub(dhPrime, lim)
	}
	return a, ga, nil
}

// VerifC10_mitm: the real client flow against the repository's server flow, with an adversary
// between them or in the server's seat. Adversaries (one per run):
//   honest        - nothing altered: the exchange must complete (non-vacuity);
//   field         - an arbitrary non-zero byte mask on one byte of a plaintext field the client
//                   must check: ResPQ nonce / server_nonce, ServerDHParamsOk nonce / server_nonce,
//                   DhGenOk nonce / server_nonce / new_nonce_hash1;
//   answer        - a bit flipped in the encrypted DH answer (first, middle, last byte);
//   fingerprint   - the advertised key fingerprint replaced by one the client does not trust;
//   foreignkey    - a server holding another RSA key that advertises the trusted fingerprint;
//   prime, ga     - a server holding the trusted key that proposes an unsafe DH prime or g_a.
// Claim: the client's Run returns nil only in the honest run; in every other run it fails (at the
// latest when the exchange timeout expires).
func VerifC10_mitm() {
	verifrt.Bubble(func() {
		const timeout = 10 * time.Second
		kind := verifrt.Fork("kind", 7)
		p := newVerifPipe()
		key := verifServerKey()
		serverKey := key
		rng := verifBadRNG{}
		switch kind {
		case 1:
			field := verifrt.Fork("field", 7)
			off := []int{0, 7, 15}[verifrt.Fork("offset", 3)]
			mask := verifrt.NondetUint8("mask")
			verifrt.Assume(mask != 0)
			if field == 1 {
				// ResPQ.server_nonce is the one field the client cannot compare with anything: it is
				// used from then on, and the exchange fails later (at the server). Concrete flip.
				mask = 1
			}
			msg := []int{1, 1, 2, 2, 3, 3, 3}[field]
			base := []int{24, 40, 24, 40, 24, 40, 56}[field]
			p.onServer = func(n int, data []byte) []byte {
				if n == msg && len(data) > base+off {
					data[base+off] ^= mask
				}
				return data
			}
		case 2:
			where := verifrt.Fork("where", 3)
			p.onServer = func(n int, data []byte) []byte {
				if n == 2 && len(data) > 64 {
					k := []int{60, (60 + len(data)) / 2, len(data) - 1}[where]
					data[k] ^= 1
				}
				return data
			}
		case 3:
			p.onServer = func(n int, data []byte) []byte {
				if n == 1 && len(data) >= 84 {
					data[76] ^= 0x55
				}
				return data
			}
		case 4:
			n2, _ := new(big.Int).SetString(verifKey2N, 16)
			d2, _ := new(big.Int).SetString(verifKey2D, 16)
			serverKey = PrivateKey{RSA: &rsa.PrivateKey{PublicKey: rsa.PublicKey{N: n2, E: 65537}, D: d2}}
			trusted := key.Fingerprint()
			p.onServer = func(n int, data []byte) []byte {
				if n == 1 && len(data) >= 84 {
					for k := 0; k < 8; k++ {
						data[76+k] = byte(uint64(trusted) >> (8 * uint(k)))
					}
				}
				return data
			}
		case 5:
			rng.prime = 1 + verifrt.Fork("prime", 3)
		case 6:
			rng.ga = 1 + verifrt.Fork("ga", 8)
		}
		r := &verifRun{p: p}
		client := NewExchanger(verifEnd{p, true}, 2).WithTimeout(timeout).WithRand(&verifRand{1}).Client([]PublicKey{key.Public()})
		server := NewExchanger(verifEnd{p, false}, 2).WithTimeout(timeout).WithRand(&verifRand{7}).Server(serverKey)
		rng.TestServerRNG = TestServerRNG{rand: &verifRand{9}}
		server.rng = rng
		go func() {
			res, err := server.Run(context.Background())
			r.serverErr, r.serverKey, r.serverDone = err, res.Key.Value, true
		}()
		go func() {
			r.result, r.clientErr = client.Run(context.Background())
			r.clientDone = true
		}()
		verifrt.Settle()
		// let every timeout on either side expire (also so that no goroutine is left behind)
		verifrt.Advance(4 * timeout)
		verifrt.Assert(r.clientDone, "C10.mitm.returns")
		if kind == 0 {
			verifrt.Assert(r.clientErr == nil && r.serverDone && r.serverErr == nil && r.serverKey == r.result.AuthKey.Value, "C10.mitm.honest")
			verifrt.Assert(!r.result.AuthKey.Zero(), "C10.mitm.nonzerokey")
			verifrt.Reach("C10.mitm.honest")
			return
		}
		verifrt.Assert(r.clientErr != nil, "C10.mitm.rejected")
		verifrt.Reach("C10.mitm.rejected")
	})
}
