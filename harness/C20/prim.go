//go:build verif

package bin

import (
	"github.com/gotd/td/internal/verifrt"
)

func c20suffix(b *Buffer) []byte {
	suf := verifrt.NondetBytes("suffix", 4)
	b.Put(suf)
	return suf
}

func c20rest(b *Buffer, suf []byte, id string) {
	verifrt.Assert(len(b.Buf) == len(suf), id)
	if len(b.Buf) == len(suf) {
		for i := range suf {
			verifrt.Assert(b.Buf[i] == suf[i], id)
		}
	}
}

// VerifC20_scalars: every fixed-size primitive round-trips, is 4-aligned and consumes exactly its encoding.
// All values of each type (64/32-bit symbolic); a 4-byte symbolic suffix follows the value.
func VerifC20_scalars() {
	b := &Buffer{}
	switch verifrt.Fork("kind", 8) {
	case 0:
		v := verifrt.NondetInt32("int")
		b.PutInt(int(v))
		verifrt.Assert(b.Len()%4 == 0, "C20.scalar.aligned")
		suf := c20suffix(b)
		got, err := b.Int()
		verifrt.Assert(err == nil && got == int(v), "C20.scalar.int")
		c20rest(b, suf, "C20.scalar.rest")
	case 1:
		v := verifrt.NondetInt64("long")
		b.PutLong(v)
		verifrt.Assert(b.Len()%4 == 0, "C20.scalar.aligned")
		suf := c20suffix(b)
		got, err := b.Long()
		verifrt.Assert(err == nil && got == v, "C20.scalar.long")
		c20rest(b, suf, "C20.scalar.rest")
	case 2:
		v := verifrt.NondetUint32("u32")
		b.PutUint32(v)
		verifrt.Assert(b.Len()%4 == 0, "C20.scalar.aligned")
		suf := c20suffix(b)
		got, err := b.Uint32()
		verifrt.Assert(err == nil && got == v, "C20.scalar.uint32")
		c20rest(b, suf, "C20.scalar.rest")
	case 3:
		v := verifrt.NondetBool("bool")
		b.PutBool(v)
		verifrt.Assert(b.Len()%4 == 0, "C20.scalar.aligned")
		suf := c20suffix(b)
		got, err := b.Bool()
		verifrt.Assert(err == nil && got == v, "C20.scalar.bool")
		c20rest(b, suf, "C20.scalar.rest")
	case 4:
		var v Int128
		copy(v[:], verifrt.NondetBytes("i128", 16))
		b.PutInt128(v)
		verifrt.Assert(b.Len()%4 == 0, "C20.scalar.aligned")
		suf := c20suffix(b)
		got, err := b.Int128()
		verifrt.Assert(err == nil && got == v, "C20.scalar.int128")
		c20rest(b, suf, "C20.scalar.rest")
	case 5:
		var v Int256
		copy(v[:], verifrt.NondetBytes("i256", 32))
		b.PutInt256(v)
		verifrt.Assert(b.Len()%4 == 0, "C20.scalar.aligned")
		suf := c20suffix(b)
		got, err := b.Int256()
		verifrt.Assert(err == nil && got == v, "C20.scalar.int256")
		c20rest(b, suf, "C20.scalar.rest")
	case 6:
		n := verifrt.NondetInt32("veclen")
		verifrt.Assume(n >= 0)
		b.PutVectorHeader(int(n))
		verifrt.Assert(b.Len()%4 == 0, "C20.scalar.aligned")
		suf := c20suffix(b)
		got, err := b.VectorHeader()
		verifrt.Assert(err == nil && got == int(n), "C20.scalar.vector")
		c20rest(b, suf, "C20.scalar.rest")
	case 7:
		v := verifrt.NondetUint32("id")
		b.PutID(v)
		suf := c20suffix(b)
		p, err := b.PeekID()
		verifrt.Assert(err == nil && p == v, "C20.scalar.peekid")
		got, err := b.ID()
		verifrt.Assert(err == nil && got == v, "C20.scalar.id")
		c20rest(b, suf, "C20.scalar.rest")
	}
	verifrt.Reach("C20.scalars.end")
}

func c20len() int {
	// lengths around both ends of the short form and the 253/254 boundary
	small, around := 9, 11
	if verifrt.Tier() == 1 {
		small, around = 40, 30
	}
	k := verifrt.Fork("lenclass", small+around)
	if k < small {
		return k
	}
	return 250 - (around-11)/2 + (k - small)
}

// VerifC20_string: strings of length L (0..8 and 250..260 quick; 0..39 and 240..269 thorough)
// with arbitrary content round-trip; encoding is 4-aligned; exactly the encoding is consumed.
func VerifC20_string() {
	l := c20len()
	raw := verifrt.NondetBytes("s", l)
	s := string(raw)
	b := &Buffer{}
	b.PutString(s)
	verifrt.Assert(b.Len()%4 == 0, "C20.string.aligned")
	suf := c20suffix(b)
	got, err := b.String()
	verifrt.Assert(err == nil, "C20.string.noerr")
	verifrt.Assert(got == s, "C20.string.roundtrip")
	c20rest(b, suf, "C20.string.rest")
	verifrt.Reach("C20.string.end")
	if l >= 254 {
		verifrt.Reach("C20.string.long")
	}
}

// VerifC20_bytes: same for bytes.
func VerifC20_bytes() {
	l := c20len()
	raw := verifrt.NondetBytes("v", l)
	b := &Buffer{}
	b.PutBytes(raw)
	verifrt.Assert(b.Len()%4 == 0, "C20.bytes.aligned")
	suf := c20suffix(b)
	got, err := b.Bytes()
	verifrt.Assert(err == nil, "C20.bytes.noerr")
	verifrt.Assert(len(got) == l, "C20.bytes.len")
	if len(got) == l {
		verifrt.Assert(string(got) == string(raw), "C20.bytes.roundtrip")
	}
	c20rest(b, suf, "C20.bytes.rest")
	verifrt.Reach("C20.bytes.end")
	if l >= 254 {
		verifrt.Reach("C20.bytes.long")
	}
}

// VerifC20_anybytes: any N<=12 bytes into every primitive decoder: no panic (checked by the
// engine as an implicit obligation), error on short input, and the cursor never moves past the end.
func VerifC20_anybytes() {
	n := verifrt.Fork("n", 13)
	raw := verifrt.NondetBytes("raw", n)
	b := &Buffer{Buf: raw}
	var err error
	need := -1
	switch verifrt.Fork("decoder", 9) {
	case 0:
		_, err = b.Int()
		need = 4
	case 1:
		_, err = b.Long()
		need = 8
	case 2:
		_, err = b.Bool()
	case 3:
		_, err = b.Int128()
		need = 16
	case 4:
		_, err = b.Int256()
		need = 32
	case 5:
		_, err = b.VectorHeader()
	case 6:
		_, err = b.String()
	case 7:
		_, err = b.Bytes()
	case 8:
		_, err = b.Uint32()
		need = 4
	}
	if need >= 0 {
		verifrt.Assert((err == nil) == (n >= need), "C20.any.short")
	}
	if err != nil {
		verifrt.Reach("C20.any.err")
	}
	verifrt.Assert(len(b.Buf) <= n, "C20.any.cursor")
	verifrt.Reach("C20.any.end")
}
