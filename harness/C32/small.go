//go:build verif

package uploader

import (
	"bytes"
	"context"
	"crypto/md5"
	"encoding/hex"

	"github.com/gotd/td/bin"
	"github.com/gotd/td/internal/verifrt"
	"github.com/gotd/td/tg"
	"github.com/gotd/td/tgerr"
)

type c32call struct {
	part  int
	data  []byte
	saved bool
}

type c32server struct {
	calls   []c32call
	adverse int // adverse answers still allowed
}

func (s *c32server) UploadSaveFilePart(ctx context.Context, r *tg.UploadSaveFilePartRequest) (bool, error) {
	c := c32call{part: r.FilePart, data: append([]byte(nil), r.Bytes...)}
	answer := 0
	if s.adverse > 0 {
		answer = verifrt.Fork("answer", 3)
	}
	if answer != 0 {
		s.adverse--
	}
	c.saved = answer == 0
	s.calls = append(s.calls, c)
	switch answer {
	case 1:
		return false, nil
	case 2:
		return false, tgerr.New(420, "FLOOD_WAIT_1")
	}
	return true, nil
}

func (s *c32server) UploadSaveBigFilePart(ctx context.Context, r *tg.UploadSaveBigFilePartRequest) (bool, error) {
	panic("verif: big part in a small upload")
}

// VerifC32_small: a small upload (Uploader.Upload -> uploadSmall -> smallLoop) of a source of L
// bytes in 1 KiB parts against a server that may answer "not saved" (false) or FLOOD_WAIT to any
// request (at most two adverse answers).
// Claims: the requests the server accepted carry part numbers 0..n-1 in order, each once; a
// retried request repeats the same part number and bytes; the accepted bytes concatenate to the
// source; every part but the last is full; the returned descriptor says Parts == n ==
// ceil(L/1024) and carries the MD5 of the source.
func VerifC32_small() {
	verifrt.Bubble(func() {
		const ps = 1024
		L := []int{1, 1023, 1024, 1025, 2048, 2500}[verifrt.Fork("L", 6)]
		src := make([]byte, L)
		for i := range src {
			src[i] = byte(i*7 + i/256)
		}
		srv := &c32server{adverse: 2}
		u := &Uploader{rpc: srv, id: func() (int64, error) { return 42, nil }, partSize: ps, pool: bin.NewPool(ps), threads: 1}
		res, err := u.Upload(context.Background(), NewUpload("f", bytes.NewReader(src), int64(L)))
		verifrt.Assert(err == nil, "C32.small.noerr")
		if err != nil {
			return
		}
		var got []byte
		next := 0
		var prev *c32call
		for i := range srv.calls {
			c := &srv.calls[i]
			if prev != nil && !prev.saved {
				verifrt.Assert(c.part == prev.part && bytes.Equal(c.data, prev.data), "C32.small.retrysame")
			}
			if c.saved {
				verifrt.Assert(c.part == next, "C32.small.sequence")
				next++
				got = append(got, c.data...)
			}
			prev = c
		}
		n := (L + ps - 1) / ps
		verifrt.Assert(next == n, "C32.small.count")
		verifrt.Assert(bytes.Equal(got, src), "C32.small.content")
		acc := 0
		for _, c := range srv.calls {
			if c.saved {
				acc++
				if acc < n {
					verifrt.Assert(len(c.data) == ps, "C32.small.fullparts")
				}
			}
		}
		f, ok := res.(*tg.InputFile)
		verifrt.Assert(ok, "C32.small.type")
		if ok {
			sum := md5.Sum(src)
			verifrt.Assert(f.Parts == n && f.ID == 42 && f.Name == "f", "C32.small.descriptor")
			verifrt.Assert(f.MD5Checksum == hex.EncodeToString(sum[:]), "C32.small.md5")
		}
		verifrt.Reach("C32.small.end")
	})
}
