//go:build verif

package uploader

import (
	"github.com/gotd/td/internal/verifrt"
)

// VerifC32_partsize: automatic part sizing for every total in [0, 4000*512KiB].
// Claims: the chosen size is valid; parts = ceil(total/size); parts <= 3999 whenever any valid
// size can achieve that (total <= 3999*512KiB); size only grows when needed.
func VerifC32_partsize() {
	total := verifrt.NondetInt64("total")
	verifrt.Assume(total >= 0 && total <= 4000*524288)
	size := computePartSize(total)
	verifrt.Assert(checkPartSize(size) == nil, "C32.partsize.valid")
	verifrt.Assert(size == 131072 || size == 262144 || size == 524288, "C32.partsize.pow2")
	parts := computeParts(size, total)
	// parts = ceil(total/size), written without division
	if total == 0 {
		verifrt.Assert(parts == 0, "C32.partsize.ceil")
	} else {
		verifrt.Assert(int64(parts-1)*int64(size) < total && total <= int64(parts)*int64(size), "C32.partsize.ceil")
	}
	if total <= 3999*524288 {
		verifrt.Assert(parts <= 3999, "C32.partsize.limit")
		verifrt.Reach("C32.partsize.within")
	}
	// minimality: a smaller default-or-larger size would exceed the limit
	if size > 131072 {
		verifrt.Assert(computeParts(size/2, total) > 3999, "C32.partsize.minimal")
		verifrt.Reach("C32.partsize.grown")
	}
	verifrt.Reach("C32.partsize.end")
}

// VerifC32_checksize: checkPartSize accepts exactly the sizes the API allows:
// multiples of 1 KiB that divide 512 KiB, i.e. 1,2,4,...,512 KiB.
func VerifC32_checksize() {
	ps := verifrt.NondetInt("ps")
	verifrt.Assume(ps >= 0 && ps <= 1<<21)
	want := false
	for v := 1024; v <= 524288; v *= 2 {
		if ps == v {
			want = true
		}
	}
	got := checkPartSize(ps) == nil
	verifrt.Assert(got == want, "C32.checksize.exact")
	verifrt.Reach("C32.checksize.end")
}

// VerifC32_init: initUpload classifies small/big by the 10 MiB threshold, counts parts and rejects
// a small upload that would need more than 3999 parts.
func VerifC32_init() {
	total := verifrt.NondetInt64("total")
	verifrt.Assume(total >= 0 && total <= 4000*524288)
	k := verifrt.Fork("sizeexp", 10)
	ps := 1024 << uint(k)
	u := &Uploader{id: func() (int64, error) { return 7, nil }}
	up := &Upload{totalBytes: total}
	err := u.initUpload(up, ps, nil)
	parts := computeParts(ps, total)
	if err == nil {
		verifrt.Assert(up.big == (total > 10*1024*1024), "C32.init.big")
		verifrt.Assert(up.totalParts == parts, "C32.init.parts")
		verifrt.Assert(up.partSize == ps && up.id == 7, "C32.init.fields")
		verifrt.Assert(up.big || parts <= 3999, "C32.init.smalllimit")
		verifrt.Reach("C32.init.ok")
	} else {
		verifrt.Assert(total <= 10*1024*1024 && parts > 3999, "C32.init.rejectonly")
		verifrt.Reach("C32.init.rejected")
	}
	verifrt.Reach("C32.init.end")
}
