//go:build verif

package dcs

import (
	"context"
	"errors"
	"net"
	"time"

	"github.com/gotd/td/internal/verifrt"
	"github.com/gotd/td/tg"
	"github.com/gotd/td/transport"
)

type c42conn struct {
	id     int
	closed int
}

func (c *c42conn) Read(p []byte) (int, error)         { return 0, errors.New("verif: no data") }
func (c *c42conn) Write(p []byte) (int, error)        { return len(p), nil }
func (c *c42conn) Close() error                       { c.closed++; return nil }
func (c *c42conn) LocalAddr() net.Addr                { return nil }
func (c *c42conn) RemoteAddr() net.Addr               { return nil }
func (c *c42conn) SetDeadline(t time.Time) error      { return nil }
func (c *c42conn) SetReadDeadline(t time.Time) error  { return nil }
func (c *c42conn) SetWriteDeadline(t time.Time) error { return nil }

type c42dial struct {
	release chan int // 1 = succeed, 2 = fail
	started bool
	done    bool
	conn    *c42conn
	err     error
}

// VerifC42_race: plain.connect (the real dialTransport and transport handshake over harness
// sockets) racing 2 or 3 addresses. Each dial completes when the harness says so — successfully,
// with an error, or (a dialer that does not watch its context) successfully after the race is
// over; the caller may be cancelled at any point. Every order of these events is explored.
// Claims, once everything has come to rest: if connect returned a connection it is open and it
// is the only established connection left open; if it returned an error no established
// connection is left open, and when every dial failed the error contains each dial's error;
// nothing is closed twice.
func VerifC42_race() {
	verifrt.Bubble(func() {
		n := 2 + verifrt.Fork("n", 2)
		dials := make([]*c42dial, n)
		errs := make([]error, n)
		var opts []tg.DCOption
		for i := range dials {
			dials[i] = &c42dial{release: make(chan int, 1)}
			errs[i] = errors.New("verif: dial failed " + string(rune('0'+i)))
			opts = append(opts, tg.DCOption{ID: 2, IPAddress: "10.0.0." + string(rune('1'+i)), Port: 443})
		}
		p := plain{
			protocol: transport.Intermediate,
			network:  "tcp",
			dial: func(ctx context.Context, network, addr string) (net.Conn, error) {
				i := int(addr[7] - '1')
				d := dials[i]
				d.started = true
				defer func() { d.done = true }()
				select {
				case how := <-d.release:
					if how == 2 {
						d.err = errs[i]
						return nil, d.err
					}
				case <-ctx.Done():
					if !verifrt.NondetBool("late") {
						d.err = ctx.Err()
						return nil, d.err
					}
					// a dial that had already succeeded when the race was called off
				}
				d.conn = &c42conn{id: i}
				return d.conn, nil
			},
		}
		ctx, cancel := context.WithCancel(context.Background())
		defer cancel()
		var got transport.Conn
		var gotErr error
		returned := false
		go func() {
			got, gotErr = p.connect(ctx, 2, false, opts)
			returned = true
		}()
		verifrt.Settle()
		canceled := false
		for step := 0; step < n+1; step++ {
			// enabled events: release dial i (ok / fail) for every dial still waiting; cancel caller
			var ev [][2]int
			for i, d := range dials {
				if d.started && !d.done {
					ev = append(ev, [2]int{i, 1}, [2]int{i, 2})
				}
			}
			if !canceled && !returned {
				ev = append(ev, [2]int{-1, 0})
			}
			if len(ev) == 0 {
				break
			}
			e := ev[verifrt.Fork("ev", len(ev))]
			if e[0] < 0 {
				canceled = true
				cancel()
			} else {
				dials[e[0]].release <- e[1]
			}
			verifrt.Settle()
		}
		// let every dial that is still waiting fail, so that everything comes to rest
		for _, d := range dials {
			if d.started && !d.done {
				d.release <- 2
			}
		}
		verifrt.Settle()
		verifrt.Assert(returned, "C42.race.returns")
		open := 0
		for _, d := range dials {
			verifrt.Assert(d.done, "C42.race.dialsdone")
			if d.conn != nil {
				verifrt.Assert(d.conn.closed <= 1, "C42.race.closedonce")
				if d.conn.closed == 0 {
					open++
				}
			}
		}
		if gotErr == nil {
			verifrt.Assert(got != nil && open == 1, "C42.race.oneopen")
			verifrt.Reach("C42.race.connected")
		} else {
			verifrt.Assert(got == nil && open == 0, "C42.race.noneopen")
			allFailed := true
			for _, d := range dials {
				if d.conn != nil {
					allFailed = false
				}
			}
			if allFailed && !canceled {
				for i := range dials {
					verifrt.Assert(errors.Is(gotErr, errs[i]), "C42.race.allerrors")
				}
				verifrt.Reach("C42.race.allfailed")
			}
		}
		verifrt.Reach("C42.race.end")
	})
}
