//go:build verif

package crypto

import (
	"crypto/rsa"
	"crypto/sha256"
	"math/big"

	"github.com/gotd/ige"

	"github.com/gotd/td/internal/verifrt"
)

const c14KeyN = "C150023E2F70DB7985DED064759CFECF0AF328E69A41DAF4D6F01B538135A6F91F8F8B2A0EC9BA9720CE352EFCF6C5680FFC424BD634864902DE0B4BD6D49F4E580230E3AE97D95C8B19442B3C0A10D8F5633FECEDD6926A7F6DAB0DDB7D457F9EA81B8465FCD6FFFEED114011DF91C059CAEDAF97625F6C96ECC74725556934EF781D866B34F011FCE4D835A090196E9A5F0E4449AF7EB697DDB9076494CA5F81104A305B6DD27665722C46B60E5DF680FB16B210607EF217652E60236C255F6A28315F4083A96791D7214BF64C1DF4FD0DB1944FB26A2A57031B32EEE64AD15A8BA68885CDE74A5BFC920F6ABF59BA5C75506373E7130F9042DA922179251F"

func c14key() *rsa.PublicKey {
	n, _ := new(big.Int).SetString(c14KeyN, 16)
	return &rsa.PublicKey{N: n, E: 65537}
}

// VerifC14_pad: RSA_PAD of arbitrary data (length 0, 1, 143 or 144) with an arbitrary random
// stream, decoded by DecodeRSAPad with the matching private key.
// Claims: the result is 256 bytes; decoding gives 192 bytes that start with the data (the rest is
// the random padding drawn first); data longer than 144 bytes is refused; the ciphertext is the
// specification's construction: RSA(temp_key xor SHA256(aes) || aes), aes = AES256_IGE(
// reverse(data_with_padding) || SHA256(temp_key || data_with_padding), temp_key, iv 0), with the
// whole thing redone with a fresh temp_key while the value is not below the modulus.
// Models: SHA-256, AES-IGE and the RSA permutation are uninterpreted (functional; inverse pairs).
func VerifC14_pad() {
	n := []int{0, 1, 143, 144}[verifrt.Fork("len", 4)]
	data := verifrt.NondetBytes("data", n)
	key := c14key()
	var stream []byte // everything the random source handed out
	src := c14rand{&stream}
	enc, err := RSAPad(data, key, src)
	verifrt.Assert(err == nil && len(enc) == 256, "C14.pad.encrypts")
	if err != nil {
		return
	}
	// reference construction from the bytes the random source handed out
	pad := stream[:192-n]
	dwp := append(append([]byte{}, data...), pad...)
	rounds := (len(stream) - (192 - n)) / 32
	verifrt.Assert(rounds >= 1 && len(stream) == 192-n+32*rounds, "C14.pad.randomuse")
	tempKey := stream[192-n+32*(rounds-1) : 192-n+32*rounds]
	rev := make([]byte, 192)
	for i := range rev {
		rev[i] = dwp[191-i]
	}
	h := sha256.Sum256(append(append([]byte{}, tempKey...), dwp...))
	dwh := append(rev, h[:]...)
	aesEnc := make([]byte, 224)
	blk, _ := newAES(tempKey)
	var iv [32]byte
	ige.EncryptBlocks(blk, iv[:], aesEnc, dwh)
	h2 := sha256.Sum256(aesEnc)
	kae := make([]byte, 0, 256)
	for i := 0; i < 32; i++ {
		kae = append(kae, tempKey[i]^h2[i])
	}
	kae = append(kae, aesEnc...)
	verifrt.Assert(new(big.Int).SetBytes(kae).Cmp(key.N) < 0, "C14.pad.belowmodulus")
	verifrt.Assert(string(rsaEncrypt(kae, key)) == string(enc), "C14.pad.construction")
	// round trip through the decoder (private exponent irrelevant under the model)
	priv := &rsa.PrivateKey{PublicKey: *key, D: big.NewInt(3)}
	dec, derr := DecodeRSAPad(enc, priv)
	verifrt.Assert(derr == nil, "C14.pad.decodes")
	if derr == nil {
		verifrt.Assert(len(dec) == 192 && string(dec[:n]) == string(data) && string(dec[n:]) == string(pad), "C14.pad.roundtrip")
	}
	verifrt.Reach("C14.pad.end")
}

type c14rand struct{ log *[]byte }

func (r c14rand) Read(p []byte) (int, error) {
	// bound of the re-try loop: a third temp_key (two values in a row not below the modulus) is
	// assumed away
	verifrt.Assume(len(*r.log) < 192+2*32)
	b := verifrt.NondetBytes("rand", len(p))
	copy(p, b)
	*r.log = append(*r.log, b...)
	return len(p), nil
}

// VerifC14_limit: data of 145 bytes is refused by RSAPad; data of 236 bytes by RSAEncryptHashed.
func VerifC14_limit() {
	var stream []byte
	_, err := RSAPad(make([]byte, 145), c14key(), c14rand{&stream})
	verifrt.Assert(err != nil, "C14.limit.pad")
	_, err = RSAEncryptHashed(make([]byte, 256), c14key(), c14rand{&stream})
	verifrt.Assert(err != nil, "C14.limit.hashed")
	verifrt.Reach("C14.limit.end")
}
