//go:build verif

package crypto

import (
	"crypto/rsa"
	"crypto/sha256"
	"math/big"

	"github.com/gotd/ige"

	"github.com/gotd/td/internal/verifrt"
)

const c14KeyN = "C150023E2F70DB7985DED064759CFECF0AF328E69A41DAF4D6F01B538135A6F91F8F8B2A0EC9BA9720CE352EFCF6C5680FFC424BD634864902DE0B4BD6D49F4E580230E3AE97D95C8B19442B3C0A10D8F5633FECEDD6926A7F6DAB0DDB7D457F9EA81B8465FCD6FFFEED114011DF91C059CAEDAF97625F6C96ECC74725556934EF781D866B34F011FCE4D835A090196E9A5F0E4449AF7EB697DDB9076494CA5F81104A305B6DD27665722C46B60E5DF680FB16B210607EF217652E60236C255F6A28315F4083A96791D7214BF64C1DF4FD0DB1944FB26A2A57031B32EEE64AD15A8BA68885CDE74A5BFC920F6ABF59BA5C75506373E7130F9042DA922179251F"

func c14key() *rsa.PublicKey {
	n, _ := new(big.Int).SetString(c14KeyN, 16)
	return &rsa.PublicKey{N: n, E: 65537}
}

// VerifC14_pad: RSA_PAD of arbitrary data (length 0, 1, 143 or 144) with an arbitrary random
// stream, decoded by DecodeRSAPad with the matching private key.
// Claims: the result is 256 bytes; decoding gives 192 bytes that start with the data (the rest is
// the random padding drawn first); data longer than 144 bytes is refused; the ciphertext is the
// specification's construction: RSA(temp_key xor SHA256(aes) || aes), aes = AES256_IGE(
// reverse(data_with_padding) || SHA256(temp_key || data_with_padding), temp_key, iv 0), with the
// whole thing redone with a fresh temp_key while the value is not below the modulus.
// Models: SHA-256, AES-IGE and the RSA permutation are uninterpreted (functional; inverse pairs).
func VerifC14_pad() {
	n := []int{0, 1, 143, 144}[verifrt.Fork("len", 4)]
	data := verifrt.NondetBytes("data", n)
	key := c14key()
	var stream []byte // everything the random source handed out
	src := c14rand{&stream}
	enc, err := RSAPad(data, key, src)
	verifrt.Assert(err == nil && len(enc) == 256, "C14.pad.encrypts")
	if err != nil {
		return
	}
	// reference construction from the bytes the random source handed out
	pad := stream[:192-n]
	dwp := append(append([]byte{}, data...), pad...)
	rounds := (len(stream) - (192 - n)) / 32
	verifrt.Assert(rounds >= 1 && len(stream) == 192-n+32*rounds, "C14.pad.randomuse")
	tempKey := stream[192-n+32*(rounds-1) : 192-n+32*rounds]
	rev := make([]byte, 192)
	for i := range rev {
		rev[i] = dwp[191-i]
	}
	h := sha256.Sum256(append(append([]byte{}, tempKey...), dwp...))
	dwh := append(rev, h[:]...)
	aesEnc := make([]byte, 224)
	blk, _ := newAES(tempKey)
	var iv [32]byte
	ige.EncryptBlocks(blk, iv[:], aesEnc, dwh)
	h2 := sha256.Sum256(aesEnc)
	kae := make([]byte, 0, 256)
	for i := 0; i < 32; i++ {
		kae = append(kae, tempKey[i]^h2[i])
	}
	kae = append(kae, aesEnc...)
	verifrt.Assert(new(big.Int).SetBytes(kae).Cmp(key.N) < 0, "C14.pad.belowmodulus")
	verifrt.Assert(string(rsaEncrypt(kae, key)) == string(enc), "C14.pad.construction")
	// round trip through the decoder (private exponent irrelevant under the model)
	priv := &rsa.PrivateKey{PublicKey: *key, D: big.NewInt(3)}
	dec, derr := DecodeRSAPad(enc, priv)
	verifrt.Assert(derr == nil, "C14.pad.decodes")
	if derr == nil {
		verifrt.Assert(len(dec) == 192 && string(dec[:n]) == string(data) && string(dec[n:]) == string(pad), "C14.pad.roundtrip")
	}
	verifrt.Reach("C14.pad.end")
}

type c14rand struct{ log *[]byte }

func (r c14rand) Read(p []byte) (int, error) {
	// bound of the re-try loop: a third temp_key (two values in a row not below the modulus) is
	// assumed away
	verifrt.Assume(len(*r.log) < 192+2*32)
	b := verifrt.NondetBytes("rand", len(p))
	copy(p, b)
	*r.log = append(*r.log, b...)
	return len(p), nil
}

// VerifC14_limit: data of 145 bytes is refused by RSAPad; data of 236 bytes by RSAEncryptHashed.
func VerifC14_limit() {
	var stream []byte
	_, err := RSAPad(make([]byte, 145), c14key(), c14rand{&stream})
	verifrt.Assert(err != nil, "C14.limit.pad")
	_, err = RSAEncryptHashed(make([]byte, 256), c14key(), c14rand{&stream})
	verifrt.Assert(err != nil, "C14.limit.hashed")
	verifrt.Reach("C14.limit.end")
}

const c14PrivN = "d14cc535d495933ee03b05d048e7b74be6ca2078576f445ebaa46e51b254e7fa359c9e22e58063f03f506655998b929d9bceed14aec65cccbfc26e518c93fba5637034cc28cc6d0da1f57a228084458e800c23b122ed2235fb833fde7d44e393ec5bc66e9dfdac64ca44051fd6e774e34bc233ad02f1a6cf7f8bcee82636e44d01a5138f79eaa8e96db98a1721c2118dc38b2ecff698f24cfa8a7fafce11c26c676afa4e163fec4634b226d8656a998f909172d533c9194fe98ca6068cf2d9e2bb393a549682386fe931524d037fbf0a5f50897a3f7a200a7ced9bd856b2d7c59ba0f1fee41cfa791c96ca4234051b0f20c03303523bda68929af07169e64511"
const c14PrivD = "b97402d25dd9632d3556572265571c2d1f043e9d232c2e3299c29515c2a44520895c8b2a749cbcf0e5c901c41b5776c43c88afbdc1d775e6de8b136122e504f75912d555895909d0288ff0769dd596245c0565a2d145b92888019618387b5003844d1598725991e584eb9c76c7df32cd2c1599e0555975eb2a22e16506676105d79555400356758afc0416abeba00e33c38eccc92d4d399bc8770579d35842b9e0f3174dd4ceecfe2624f6a88aafaffa986ebec8b84313eb98a95c09fb28e436416c167169fec13bedc2a655533c896478b77d754fe3010994a132194f99cd0a465834a9ad6dffb6fb05e67fbfb53ac53e1bc2857437c6cbb7326831c2cecc01"

// VerifC14_accept: the decoder's acceptance predicate. An arbitrary 2048-bit value X below the
// modulus is RSA-encrypted under a real test key and handed to DecodeRSAPad with the matching
// private key (so the decoder sees exactly X after the RSA step). Reference, from the
// specification: temp_key = X[:32] xor SHA256(X[32:]); data_with_hash = AES256_IGE_decrypt(X[32:],
// temp_key, iv 0); accept iff its last 32 bytes equal SHA256(temp_key || reverse(first 192 bytes)),
// and then the result is that reversed prefix. Claim: DecodeRSAPad accepts exactly then — in
// particular a ciphertext that was not produced by RSA_PAD for this key (altered, or made for
// another key) is refused unless it happens to satisfy the hash equation.
func VerifC14_accept() {
	n, _ := new(big.Int).SetString(c14PrivN, 16)
	d, _ := new(big.Int).SetString(c14PrivD, 16)
	priv := &rsa.PrivateKey{PublicKey: rsa.PublicKey{N: n, E: 65537}, D: d}
	x := verifrt.NondetBytes("x", 256)
	verifrt.Assume(new(big.Int).SetBytes(x).Cmp(n) < 0)
	ct := rsaEncrypt(x, &priv.PublicKey)
	dec, err := DecodeRSAPad(ct, priv)
	// reference
	h1 := sha256.Sum256(x[32:])
	tempKey := make([]byte, 32)
	for i := range tempKey {
		tempKey[i] = x[i] ^ h1[i]
	}
	dwh := make([]byte, 224)
	blk, _ := newAES(tempKey)
	var iv [32]byte
	ige.DecryptBlocks(blk, iv[:], dwh, x[32:])
	dwp := make([]byte, 192)
	for i := range dwp {
		dwp[i] = dwh[191-i]
	}
	h2 := sha256.Sum256(append(append([]byte{}, tempKey...), dwp...))
	ok := string(dwh[192:]) == string(h2[:])
	verifrt.Assert((err == nil) == ok, "C14.accept.predicate")
	if err == nil {
		verifrt.Assert(string(dec) == string(dwp), "C14.accept.result")
		verifrt.Reach("C14.accept.accepted")
	} else {
		verifrt.Reach("C14.accept.rejected")
	}
}
