//go:build verif

package session

import (
	"context"

	"github.com/gotd/td/internal/verifrt"
)

// VerifC31_atomic: FileStorage.StoreSession replacing an existing session file, with a crash at
// any file-system call boundary of the save (or right after it) and any prefix of the not yet
// synced operations lost.
// Claims: whatever the crash point, the session file on disk afterwards holds either the complete
// previous session or the complete new one; without a crash the new session is what LoadSession
// returns; no other file is left behind after a completed save.
func VerifC31_atomic() {
	old := verifrt.NondetBytes("old", 3)
	neu := verifrt.NondetBytes("new", 4)
	path := verifrt.FSPath("session.json")
	verifrt.FSInit(path, old)
	st := &FileStorage{Path: path}
	var err error
	crashed := verifrt.Crash(func() { err = st.StoreSession(context.Background(), neu) })
	got, exists := verifrt.FSDurable(path)
	verifrt.Assert(exists, "C31.atomic.exists")
	verifrt.Assert(string(got) == string(old) || string(got) == string(neu), "C31.atomic.oldornew")
	if !crashed {
		verifrt.Assert(err == nil, "C31.atomic.noerr")
		verifrt.Assert(string(got) == string(neu), "C31.atomic.stored")
		data, lerr := st.LoadSession(context.Background())
		verifrt.Assert(lerr == nil && string(data) == string(neu), "C31.atomic.loads")
		verifrt.Assert(len(verifrt.FSList()) == 1, "C31.atomic.noleftovers")
		verifrt.Reach("C31.atomic.completed")
	} else {
		verifrt.Reach("C31.atomic.crashed")
	}
	verifrt.Reach("C31.atomic.end")
}

// VerifC31_again: a save that is interrupted, the restart, and the next save. The first save
// (5 bytes over a 3-byte session) crashes at any point with any loss; after the restart a shorter
// session (4 bytes) is saved — to completion in the quick tier, with a second arbitrary crash in
// the thorough tier. Claims: the session file then holds a complete session (the old one, the
// first or the second new one), and exactly the second one when its save completed — whatever
// the interrupted save left lying around.
func VerifC31_again() {
	old := verifrt.NondetBytes("old", 3)
	first := verifrt.NondetBytes("first", 5)
	second := verifrt.NondetBytes("second", 4)
	path := verifrt.FSPath("session.json")
	verifrt.FSInit(path, old)
	st := &FileStorage{Path: path}
	crashed1 := verifrt.Crash(func() { _ = st.StoreSession(context.Background(), first) })
	verifrt.FSRestart()
	st = &FileStorage{Path: path}
	var err error
	crashed2 := false
	if verifrt.Tier() == 1 {
		crashed2 = verifrt.Crash(func() { err = st.StoreSession(context.Background(), second) })
	} else {
		err = st.StoreSession(context.Background(), second)
	}
	got, exists := verifrt.FSDurable(path)
	verifrt.Assert(exists, "C31.again.exists")
	verifrt.Assert(string(got) == string(old) || string(got) == string(first) || string(got) == string(second), "C31.again.complete")
	if !crashed2 {
		verifrt.Assert(err == nil && string(got) == string(second), "C31.again.stored")
	}
	if crashed1 {
		verifrt.Reach("C31.again.interrupted")
	}
	verifrt.Reach("C31.again.end")
}
