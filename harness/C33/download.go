//go:build verif

package downloader

import (
	"context"
	"sync"
	"time"

	"github.com/gotd/td/internal/verifrt"
	"github.com/gotd/td/tg"
	"github.com/gotd/td/tgerr"
)

// c33schema serves a file of L bytes (concrete pattern) part by part; any request may first be
// answered by FLOOD_WAIT_1 or by a retryable timeout (at most `adverse` times per download), and
// one request may be held back until another one has been served (a slow worker).
type c33schema struct {
	mu      sync.Mutex
	file    []byte
	adverse int
	hold    bool
	held    chan struct{}
	calls   int
}

func (s *c33schema) Chunk(ctx context.Context, offset int64, limit int) (chunk, error) {
	s.mu.Lock()
	s.calls++
	answer := 0
	if s.adverse > 0 {
		answer = verifrt.Fork("answer", 3)
		if answer != 0 {
			s.adverse--
		}
	}
	holdThis := false
	if s.hold && s.held == nil && verifrt.Fork("hold", 2) == 1 {
		s.held = make(chan struct{})
		holdThis = true
	} else if s.held != nil {
		select {
		case <-s.held:
		default:
			close(s.held) // another request is being served: the held one may go on
		}
	}
	held := s.held
	s.mu.Unlock()
	if holdThis {
		select {
		case <-held:
		case <-time.After(time.Hour): // a slow request does complete in the end
		case <-ctx.Done():
			return chunk{}, ctx.Err()
		}
	}
	switch answer {
	case 1:
		return chunk{}, tgerr.New(420, "FLOOD_WAIT_1")
	case 2:
		return chunk{}, tgerr.New(500, tg.ErrTimeout)
	}
	if offset >= int64(len(s.file)) {
		return chunk{tag: &tg.StorageFileJpeg{}}, nil
	}
	end := offset + int64(limit)
	if end > int64(len(s.file)) {
		end = int64(len(s.file))
	}
	return chunk{data: append([]byte(nil), s.file[offset:end]...), tag: &tg.StorageFileJpeg{}}, nil
}

func (s *c33schema) Hashes(ctx context.Context, offset int64) ([]tg.FileHash, error) {
	return nil, nil
}

type c33sink struct {
	mu      sync.Mutex
	data    []byte
	written []bool
	overlap int
}

func (w *c33sink) WriteAt(p []byte, off int64) (int, error) {
	w.mu.Lock()
	defer w.mu.Unlock()
	for len(w.data) < int(off)+len(p) {
		w.data = append(w.data, 0)
		w.written = append(w.written, false)
	}
	for i, b := range p {
		if w.written[int(off)+i] {
			w.overlap++
		}
		w.written[int(off)+i] = true
		w.data[int(off)+i] = b
	}
	return len(p), nil
}

func (w *c33sink) Write(p []byte) (int, error) { return w.WriteAt(p, int64(len(w.data))) }

func c33file() []byte {
	L := []int{0, 1, 3, 4, 5, 8, 9}[verifrt.Fork("L", 7)]
	f := make([]byte, L)
	for i := range f {
		f[i] = byte(31*i + 7)
	}
	return f
}

func c33claims(name string, f []byte, w *c33sink, typ tg.StorageFileTypeClass, err error) {
	verifrt.Assert(err == nil, name+".noerr")
	if err != nil {
		return
	}
	verifrt.Assert(len(w.data) == len(f), name+".length")
	verifrt.Assert(string(w.data) == string(f), name+".content")
	verifrt.Assert(w.overlap == 0, name+".noduplicate")
	for _, ok := range w.written {
		verifrt.Assert(ok, name+".nogap")
	}
	_, isJpeg := typ.(*tg.StorageFileJpeg)
	verifrt.Assert(isJpeg, name+".type")
}

// VerifC33_stream: Downloader.stream with 4-byte parts over files of 0..9 bytes, with up to two
// FLOOD_WAIT / timeout answers at any request. Claims: the bytes written are exactly the file, in
// order, nothing twice; the reported type is the served one.
func VerifC33_stream() {
	verifrt.Bubble(func() {
		f := c33file()
		s := &c33schema{file: f, adverse: 2}
		w := &c33sink{}
		d := NewDownloader().WithPartSize(4)
		typ, err := d.stream(context.Background(), plainReader(s, 4), w)
		c33claims("C33.stream", f, w, typ, err)
		verifrt.Reach("C33.stream.end")
	})
}

// VerifC33_parallel: Downloader.parallel with 1..2 workers, 4-byte parts, files of 0..9 bytes, one
// adverse answer and optionally one worker held back until another request has been served.
// Claims as above, positions given by WriteAt offsets.
func VerifC33_parallel() {
	verifrt.Bubble(func() {
		f := c33file()
		threads := 1 + verifrt.Fork("threads", 2)
		s := &c33schema{file: f, adverse: 1, hold: threads > 1}
		w := &c33sink{}
		d := NewDownloader().WithPartSize(4)
		typ, err := d.parallel(context.Background(), plainReader(s, 4), threads, w)
		c33claims("C33.parallel", f, w, typ, err)
		verifrt.Reach("C33.parallel.end")
	})
}
