//go:build verif

package downloader

import (
	"context"
	"errors"

	"github.com/gotd/td/bin"
	"github.com/gotd/td/crypto"
	"github.com/gotd/td/internal/verifrt"
	"github.com/gotd/td/tg"
)

// c34server is the data source the downloader talks to. It serves the byte string S — which may
// differ from the genuine file F (corrupted, truncated or extended) — consistently: every request
// (offset, limit) is answered with S[offset : offset+limit] cut at the end of S.
type c34server struct {
	s      []byte
	hashes []tg.FileHash
}

func (c *c34server) UploadGetFile(ctx context.Context, r *tg.UploadGetFileRequest) (tg.UploadFileClass, error) {
	if r.Offset >= int64(len(c.s)) {
		return &tg.UploadFile{Type: &tg.StorageFileUnknown{}}, nil
	}
	end := r.Offset + int64(r.Limit)
	if end > int64(len(c.s)) {
		end = int64(len(c.s))
	}
	return &tg.UploadFile{Type: &tg.StorageFileUnknown{}, Bytes: append([]byte(nil), c.s[r.Offset:end]...)}, nil
}

func (c *c34server) UploadGetFileHashes(ctx context.Context, r *tg.UploadGetFileHashesRequest) ([]tg.FileHash, error) {
	return c.hashes, nil
}

func (c *c34server) UploadReuploadCDNFile(ctx context.Context, r *tg.UploadReuploadCDNFileRequest) ([]tg.FileHash, error) {
	return nil, errors.New("verif: unused")
}

func (c *c34server) UploadGetCDNFileHashes(ctx context.Context, r *tg.UploadGetCDNFileHashesRequest) ([]tg.FileHash, error) {
	return c.hashes, nil
}

func (c *c34server) UploadGetWebFile(ctx context.Context, r *tg.UploadGetWebFileRequest) (*tg.UploadWebFile, error) {
	return nil, errors.New("verif: unused")
}

// VerifC34_verify: inline verification of one served chunk, (*cdn).verifyChunk with the real hash
// lookup (hashForOffset), window cache and full-window fetch (loadAndVerifyWindow).
// Genuine file F (arbitrary bytes, length L) defines the hash windows (4 bytes each, the last one
// short); the server holds S (arbitrary bytes, length L-1, L or L+2) and answers every request
// from S. A chunk (offset, limit) — aligned or not with the windows, shorter or longer than a
// window — is fetched from the server and verified.
// Claim: if verifyChunk accepts, every byte of the chunk handed on equals the genuine file at
// that position and nothing lies beyond the genuine end of file. (SHA-256 collision-free.)
func VerifC34_verify() {
	verifrt.CollisionFree()
	const w = 4
	L := []int{5, 6, 8}[verifrt.Fork("L", 3)]
	LS := L + []int{0, 2, -1}[verifrt.Fork("LS", 3)]
	f := verifrt.NondetBytes("f", L)
	s := verifrt.NondetBytes("s", LS)
	srv := &c34server{s: s}
	for off := 0; off < L; off += w {
		end := off + w
		if end > L {
			end = L
		}
		srv.hashes = append(srv.hashes, tg.FileHash{Offset: int64(off), Limit: w, Hash: crypto.SHA256(f[off:end])})
	}
	c := newCDNSchema(master{client: srv}, nil, bin.NewPool(0), 1, true, nil)
	offset := verifrt.Fork("offset", LS)
	limit := []int{2, 3, 4, 6}[verifrt.Fork("limit", 4)]
	ctx := context.Background()
	ch, err := c.master.Chunk(ctx, int64(offset), limit)
	verifrt.Assert(err == nil && len(ch.data) > 0, "C34.verify.served")
	data := ch.data
	verr := c.verifyChunk(ctx, int64(offset), limit, data)
	if verr != nil {
		verifrt.Reach("C34.verify.rejected")
		return
	}
	verifrt.Assert(offset+len(data) <= L, "C34.verify.beyondeof")
	for i := range data {
		if offset+i < L {
			verifrt.Assert(data[i] == f[offset+i], "C34.verify.genuine")
		}
	}
	verifrt.Reach("C34.verify.accepted")
}
