//go:build verif

package downloader

import (
	"github.com/gotd/td/internal/verifrt"
)

// VerifC34_plan: buildCDNRequestPlan(offset, limit) on the 4 KiB grid.
// Claims: no error for valid input; ranges are contiguous from offset and cover exactly
// [offset, offset+limit); every range limit is a multiple of 4 KiB that divides 1 MiB; no range
// crosses a 1 MiB boundary.
// Bound: offset = 4KiB*a, a in [0,1024); limit = 4KiB*b, b in [1,8] in both tiers (larger limits did not finish: 24 ran past 25 minutes, 64 past 45).
func VerifC34_plan() {
	maxB := 8
	if verifrt.Tier() == 1 {
		maxB = 8
	}
	a := verifrt.NondetInt("a")
	b := verifrt.NondetInt("b")
	verifrt.Assume(a >= 0 && a < 1024 && b >= 1 && b <= maxB)
	offset := int64(a) * 4096
	limit := b * 4096
	plan, err := buildCDNRequestPlan(offset, limit)
	verifrt.Assert(err == nil, "C34.plan.noerr")
	if err != nil {
		return
	}
	cur := offset
	for _, r := range plan {
		verifrt.Assert(r.offset == cur, "C34.plan.contiguous")
		verifrt.Assert(r.limit > 0 && r.limit%4096 == 0, "C34.plan.aligned")
		verifrt.Assert(1048576%r.limit == 0, "C34.plan.divides")
		verifrt.Assert(r.offset/1048576 == (r.offset+int64(r.limit)-1)/1048576, "C34.plan.window")
		cur += int64(r.limit)
	}
	verifrt.Assert(cur == offset+int64(limit), "C34.plan.cover")
	if len(plan) > 1 {
		verifrt.Reach("C34.plan.multi")
	}
	verifrt.Reach("C34.plan.end")
}

// VerifC34_plan_invalid: invalid inputs are rejected with an error (and only those).
func VerifC34_plan_invalid() {
	offset := verifrt.NondetInt64("offset")
	limit := verifrt.NondetInt("limit")
	verifrt.Assume(offset >= -8192 && offset < 1<<22 && limit >= -8192 && limit <= 8*4096)
	valid := limit > 0 && offset >= 0 && offset%4096 == 0 && limit%4096 == 0
	_, err := buildCDNRequestPlan(offset, limit)
	verifrt.Assert((err == nil) == valid, "C34.plan.validity")
	verifrt.Reach("C34.planinv.end")
}
