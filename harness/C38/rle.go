//go:build verif

package fileid

import (
	"bytes"

	"github.com/gotd/td/internal/verifrt"
)

// VerifC38_rle_run: prefix ‖ zero run of length R ‖ suffix round-trips through rleEncode/rleDecode.
// Bound: R in [0,300] (quick) / [0,600] (thorough), prefix and suffix one symbolic non-... byte each.
func VerifC38_rle_run() {
	max := 300
	if verifrt.Tier() == 1 {
		max = 600
	}
	r := verifrt.Fork("run", max+1)
	p := verifrt.NondetUint8("prefix")
	s := verifrt.NondetUint8("suffix")
	in := make([]byte, 0, r+2)
	in = append(in, p)
	for i := 0; i < r; i++ {
		in = append(in, 0)
	}
	in = append(in, s)
	enc := rleEncode(in)
	dec := rleDecode(enc)
	verifrt.Assert(bytes.Equal(dec, in), "C38.rle.roundtrip")
	verifrt.Reach("C38.rle.end")
}

// VerifC38_rle_any: any input of length n<=6 round-trips.
func VerifC38_rle_any() {
	n := verifrt.Fork("n", 7)
	in := verifrt.NondetBytes("in", n)
	enc := rleEncode(in)
	dec := rleDecode(enc)
	verifrt.Assert(bytes.Equal(dec, in), "C38.rle.roundtrip")
	verifrt.Reach("C38.rle.end")
}
