//go:build verif

package fileid

import (
	"github.com/gotd/td/bin"
	"github.com/gotd/td/internal/verifrt"
)

// VerifC38_fileid: the binary form of a file id (encodeLatestFileID / decodeLatestFileID) round
// trips for every combination of {file reference present or not} x {web location (URL) or
// id/access hash}, with arbitrary dc, id, access hash, reference bytes and URL characters, for a
// non-photo type (photo-size sources are a separate sub-format).
func VerifC38_fileid() {
	f := FileID{
		Type:       []Type{Video, Document, Sticker}[verifrt.Fork("type", 3)],
		DC:         int(verifrt.NondetUint32("dc")),
		ID:         verifrt.NondetInt64("id"),
		AccessHash: verifrt.NondetInt64("hash"),
	}
	if verifrt.NondetBool("hasref") {
		f.FileReference = verifrt.NondetBytes("ref", 3)
	}
	if verifrt.NondetBool("hasurl") {
		u := verifrt.NondetBytes("url", 2)
		for _, c := range u {
			verifrt.Assume(c >= 0x21 && c < 0x7f)
		}
		f.URL = string(u)
	}
	var b bin.Buffer
	f.encodeLatestFileID(&b)
	verifrt.Assert(b.Len() > 0, "C38.fileid.encoded")
	var g FileID
	err := g.decodeLatestFileID(&bin.Buffer{Buf: append([]byte(nil), b.Buf...)})
	verifrt.Assert(err == nil, "C38.fileid.decodes")
	if err != nil {
		return
	}
	verifrt.Assert(g.Type == f.Type && g.DC == f.DC, "C38.fileid.header")
	verifrt.Assert(string(g.FileReference) == string(f.FileReference), "C38.fileid.reference")
	verifrt.Assert(g.URL == f.URL, "C38.fileid.url")
	if f.URL == "" {
		verifrt.Assert(g.ID == f.ID && g.AccessHash == f.AccessHash, "C38.fileid.ids")
	}
	verifrt.Reach("C38.fileid.end")
}

// VerifC38_string: the textual form (binary form + version byte, RLE, base64url) round trips for a
// document id with an arbitrary id and access hash (zero runs of every length up to 16 arise
// from the zero bytes of small values).
func VerifC38_string() {
	f := FileID{Type: Document, DC: 2, ID: verifrt.NondetInt64("id"), AccessHash: verifrt.NondetInt64("hash")}
	s, err := EncodeFileID(f)
	verifrt.Assert(err == nil, "C38.string.encodes")
	g, err := DecodeFileID(s)
	verifrt.Assert(err == nil, "C38.string.decodes")
	if err == nil {
		verifrt.Assert(g.Type == f.Type && g.DC == f.DC && g.ID == f.ID && g.AccessHash == f.AccessHash, "C38.string.equal")
	}
	verifrt.Reach("C38.string.end")
}
