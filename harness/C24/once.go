//go:build verif

package rpc

import "github.com/gotd/td/internal/verifrt"

// VerifC24_once: see scenario.go. Bound: 2 concurrent calls, up to 2 (quick) / 3 (thorough)
// injected events over all call-out and quiescent points.
func VerifC24_once() {
	verifrt.Bubble(func() {
		budget := 2
		if verifrt.Tier() == 1 {
			budget = 3
		}
		h := verifScenario(budget, 0)
		h.finish()
		verifC24Claims(h)
		verifrt.Reach("C24.once.end")
	})
}
