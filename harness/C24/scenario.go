//go:build verif

package rpc

import (
	"context"
	"errors"
	"time"

	"github.com/gotd/log"

	"github.com/gotd/td/bin"
	"github.com/gotd/td/internal/verifrt"
)

// Scenario harness shared by C24 and C26: two concurrent Engine.Do calls; the "server" and the
// callers' environment are played by the harness, which injects an event (ack, result, duplicate
// result, error, result for the other/unknown id, cancellation of caller 0, ForceClose) at every
// point where the engine calls out (send, Output.Decode, drop handler) and at every quiescent
// point between them. Which event happens where is a symbolic choice (verifrt.Fork), so every
// placement of up to `budget` events over those points is explored; because the placements are
// data, every counterexample replays natively (testing/synctest bubble).

var errVerifRPC = errors.New("verif: rpc error")

type verifOut struct {
	h       *verifScn
	k       int
	decodes []byte // tags decoded into this output
	late    int    // decodes that started or ended after Do returned
	inDec   bool
}

func (o *verifOut) Decode(b *bin.Buffer) error {
	h := o.h
	if h.returned[o.k] {
		o.late++
	}
	o.inDec = true
	var tag byte
	if b != nil && len(b.Buf) > 0 {
		tag = b.Buf[0]
	}
	h.inject("decode" + string(rune('0'+o.k)))
	o.decodes = append(o.decodes, tag)
	if h.returned[o.k] {
		o.late++
	}
	o.inDec = false
	return nil
}

// verifLog is the engine's logger: the first statement of the result handler ("Handler called") is
// a call-out that lies between NotifyResult's lookup of the handler and the handler's own
// bookkeeping — events injected there hit that window.
type verifLog struct{ h *verifScn }

func (l verifLog) Enabled(ctx context.Context, level log.Level) bool { return true }
func (l verifLog) Log(ctx context.Context, level log.Level, msg string, attrs ...log.Attr) {
	if msg == "Handler called" && l.h.notifying >= 0 {
		l.h.inject("handler" + string(rune('0'+l.h.notifying)))
	}
}

type verifIn struct{}

func (verifIn) Encode(b *bin.Buffer) error { return nil }

type verifScn struct {
	e        *Engine
	ids      [2]int64
	unknown  int64
	cancel   [2]context.CancelFunc
	canceled [2]bool
	cancelErr [2]error
	returned [2]bool
	returns  [2]int
	errs     [2]error
	outs     [2]*verifOut
	budget   int
	sends    [2]int
	sendOK   [2]int
	lateSend [2]int // transmissions after an ack/result/error for the id was handed to the engine
	acked    [2]bool
	answered [2]bool // a result or error for the id was handed to the engine while its handler was registered
	firstTag [2]byte
	tags     [2][]byte // every result handed over for the id while its call was pending
	gotErr   [2]bool   // an rpc error was handed over for the id while its call was pending
	firstErr [2]bool
	results  [2]int
	drops    [2]int
	closed   bool
	notifying int // request whose result/error the harness is delivering (-1: none)
	parkUsed bool
	used     int
	stalled  []chan struct{} // senders blocked in a slow transport write
	mainRunning bool
	parked   []chan struct{}
	closedByScenario bool
	nextTag  byte
	depth    int
}

func (h *verifScn) registered(k int) bool {
	h.e.mux.Lock()
	defer h.e.mux.Unlock()
	_, ok := h.e.rpc[h.ids[k]]
	return ok
}

func (h *verifScn) ackRegistered(k int) bool {
	h.e.mux.Lock()
	defer h.e.mux.Unlock()
	_, ok := h.e.ack[h.ids[k]]
	return ok
}

func (h *verifScn) result(k int) {
	h.nextTag++
	tag := h.nextTag
	if h.registered(k) && !h.returned[k] {
		h.tags[k] = append(h.tags[k], tag)
	}
	if h.registered(k) && !h.answered[k] && !h.returned[k] && !(h.canceled[k] && h.dropping(k)) {
		h.answered[k] = true
		h.firstTag[k] = tag
	}
	h.results[k]++
	prev := h.notifying
	h.notifying = k
	_ = h.e.NotifyResult(h.ids[k], &bin.Buffer{Buf: []byte{tag, 0, 0, 0}})
	h.notifying = prev
}

// dropping: the caller was cancelled and Do has replaced the handler by the no-op one (we cannot
// see which handler is registered, only that cancellation was observed: approximated by
// "cancelled"; used only to decide whether a result counts as the call's answer).
func (h *verifScn) dropping(k int) bool { return h.canceled[k] }

func (h *verifScn) rpcError(k int) {
	if h.registered(k) && !h.returned[k] {
		h.gotErr[k] = true
	}
	if h.registered(k) && !h.answered[k] && !h.returned[k] && !h.canceled[k] {
		h.answered[k] = true
		h.firstErr[k] = true
	}
	prev := h.notifying
	h.notifying = k
	h.e.NotifyError(h.ids[k], errVerifRPC)
	h.notifying = prev
}

// settle waits until every other goroutine is blocked. On the harness goroutine this is
// verifrt.Settle; a call-out running on one of the callers' goroutines instead parks itself and is
// released by the harness goroutine once everything else has come to rest (testing/synctest
// allows only one waiter at a time).
func (h *verifScn) settle() {
	h.release() // a stalled transport write gets going again when something happens
	if h.mainRunning {
		h.mainSettle()
		return
	}
	w := make(chan struct{})
	h.parked = append(h.parked, w)
	<-w
}

func (h *verifScn) release() {
	for _, w := range h.stalled {
		close(w)
	}
	h.stalled = nil
}

func (h *verifScn) mainSettle() {
	h.mainRunning = false
	for {
		verifrt.Settle()
		if len(h.parked) == 0 {
			break
		}
		w := h.parked[len(h.parked)-1]
		h.parked = h.parked[:len(h.parked)-1]
		close(w)
	}
	h.mainRunning = true
}

func (h *verifScn) inject(where string) {
	if h.budget == 0 || h.depth > 1 {
		return
	}
	if h.used >= 2 && where != "idle" {
		return // a third event (thorough tier) is placed at quiescent points only
	}
	a := verifrt.Fork("act@"+where, 10)
	if a == 0 {
		return
	}
	h.budget--
	h.used++
	h.depth++
	defer func() { h.depth-- }()
	switch a {
	case 1:
		if h.ackRegistered(0) {
			h.acked[0] = true
		}
		h.e.NotifyAcks([]int64{h.ids[0]})
	case 2:
		h.result(0)
	case 3:
		h.rpcError(0)
	case 4:
		h.result(1)
	case 5:
		_ = h.e.NotifyResult(h.unknown, &bin.Buffer{Buf: []byte{0xff, 0, 0, 0}})
	case 6:
		h.canceled[0] = true
		if h.cancelErr[0] == nil {
			h.cancelErr[0] = context.Canceled
		}
		h.cancel[0]()
		h.settle()
	case 7:
		if !h.closed {
			h.closed = true
			h.closedByScenario = true
			go h.e.ForceClose()
			h.settle()
		}
	case 9:
		// the deadline of caller 0 passes (only at quiescent points: time moves when everybody rests)
		if where == "idle" && !h.canceled[0] {
			h.canceled[0] = true
			h.cancelErr[0] = context.DeadlineExceeded
			h.mainRunning = false
			verifrt.Advance(2 * time.Hour)
			h.mainRunning = true
			h.mainSettle()
		} else {
			h.budget++
			h.used--
		}
	case 8:
		for k := 0; k < 2; k++ {
			if h.ackRegistered(k) {
				h.acked[k] = true
			}
		}
		h.e.NotifyAcks([]int64{h.unknown, h.ids[1], h.ids[0]}) // a stale id first, as in a real msgs_ack batch
	}
}

func (h *verifScn) which(id int64) int {
	if id == h.ids[0] {
		return 0
	}
	return 1
}

func verifScenario(budget int, explore int) *verifScn {
	h := &verifScn{budget: budget, mainRunning: true, notifying: -1}
	h.ids[0] = verifrt.NondetInt64("id0")
	h.ids[1] = verifrt.NondetInt64("id1")
	h.unknown = verifrt.NondetInt64("idx")
	verifrt.Assume(h.ids[0] != h.ids[1] && h.unknown != h.ids[0] && h.unknown != h.ids[1])
	h.e = New(func(ctx context.Context, msgID int64, seqNo int32, in bin.Encoder) error {
		k := h.which(msgID)
		h.sends[k]++
		if h.acked[k] || h.answered[k] {
			h.lateSend[k]++
		}
		// the transport write may block for a while: the sender is parked until everything else
		// has come to rest (at most once per scenario, free of charge)
		if !h.parkUsed && !h.mainRunning && verifrt.Fork("park@send"+string(rune('0'+k)), 2) == 1 {
			h.parkUsed = true
			w := make(chan struct{})
			h.stalled = append(h.stalled, w)
			<-w // released when the harness next waits for quiescence after an event
		}
		h.inject("send" + string(rune('0'+k)))
		if err := ctx.Err(); err != nil {
			// a real transport write fails once its context is done
			return err
		}
		h.sendOK[k]++
		return nil
	}, Options{Logger: verifLog{h}, RetryInterval: 100 * time.Hour, DropHandler: func(req Request) error {
		k := h.which(req.MsgID)
		h.drops[k]++
		h.inject("drop" + string(rune('0'+k)))
		return nil
	}})
	if explore > 0 {
		verifrt.Explore(explore)
	}
	for k := 0; k < 2; k++ {
		k := k
		h.outs[k] = &verifOut{h: h, k: k}
		ctx, cancel := context.WithCancel(context.Background())
		if k == 0 {
			// caller 0 also has a deadline, far enough not to pass unless the scenario says so
			ctx, cancel = context.WithTimeout(context.Background(), time.Hour)
		}
		h.cancel[k] = cancel
		go func() {
			err := h.e.Do(ctx, Request{MsgID: h.ids[k], SeqNo: int32(2*k + 1), Input: verifIn{}, Output: h.outs[k]})
			h.errs[k] = err
			h.returns[k]++
			h.returned[k] = true
		}()
		h.mainSettle()
	}
	for step := 0; step < budget+1 && h.budget > 0; step++ {
		h.inject("idle")
		h.mainSettle()
	}
	return h
}

// finish: close the engine (if the scenario did not) so that every call must come back.
func (h *verifScn) finish() {
	// first let a stalled transport write (and whatever it triggers) run to quiescence
	h.release()
	h.mainSettle()
	if !h.closed {
		h.closed = true
		go h.e.ForceClose()
	}
	h.release()
	h.mainSettle()
}

func verifC24Claims(h *verifScn) {
	for k := 0; k < 2; k++ {
		o := h.outs[k]
		verifrt.Assert(h.returned[k] && h.returns[k] == 1, "C24.once.returns")
		// the output is written at most once, only with a result addressed to this call ...
		verifrt.Assert(len(o.decodes) <= 1, "C24.once.singledecode")
		if len(o.decodes) == 1 {
			// (answers that race each other — delivered while an earlier one is still being handled —
			// may be taken in either order)
			own := false
			for _, tg := range h.tags[k] {
				if tg == o.decodes[0] {
					own = true
				}
			}
			verifrt.Assert(own, "C24.once.ownresult")
		}
		// ... and never during or after the return of the call
		verifrt.Class("C24-decode-after-cancel", h.canceled[k])
		verifrt.Assert(o.late == 0 && !o.inDec, "C24.once.nolatewrite")
		// outcome
		err := h.errs[k]
		switch {
		case err == nil:
			verifrt.Assert(len(o.decodes) == 1, "C24.once.nilmeansdecoded")
		case errors.Is(err, errVerifRPC):
			verifrt.Assert(h.gotErr[k], "C24.once.ownerror")
		default:
			verifrt.Assert(h.canceled[k] || h.closed, "C24.once.othererror")
		}
		if h.answered[k] && !h.canceled[k] && !h.closedBeforeAnswer(k) {
			switch {
			case len(h.tags[k]) > 0 && h.gotErr[k]:
				verifrt.Assert(err == nil || errors.Is(err, errVerifRPC), "C24.once.answerdelivered")
			case h.gotErr[k]:
				verifrt.Assert(errors.Is(err, errVerifRPC), "C24.once.errordelivered")
			default:
				verifrt.Assert(err == nil, "C24.once.resultdelivered")
			}
		}
		verifrt.Assert(h.lateSend[k] == 0, "C24.once.nosendafterackorresult")
	}
}

// closedBeforeAnswer: conservative — when the engine was closed in the same scenario the order of
// answer and close decides the outcome and both outcomes are accepted.
func (h *verifScn) closedBeforeAnswer(k int) bool { return h.closedByScenario }
