//go:build verif

package tgerr

import (
	"context"
	"strconv"
	"time"

	"github.com/gotd/td/internal/verifrt"
)

func c40char(name string, first bool) byte {
	c := verifrt.NondetUint8(name)
	if first {
		verifrt.Assume(c >= 'A' && c <= 'Z')
	} else {
		verifrt.Assume((c >= 'A' && c <= 'Z') || (c >= '0' && c <= '9'))
	}
	return c
}

// VerifC40_parse: an error message made of 1..W upper-case words (letters and digits, each with
// at least one letter) and one all-digit part at any position, joined by underscores.
// Claims: Type is the words joined by "_" (the numeric part and its separator removed),
// Argument is the value of the numeric part, Code and Message are kept.
// Bound: W = 2 words of up to 2 characters, up to 3 digits (quick); 3 words of up to 3
// characters, up to 4 digits (thorough).
func VerifC40_parse() {
	maxW, maxC, maxD := 2, 2, 3
	if verifrt.Tier() == 1 {
		maxW, maxC, maxD = 3, 3, 4
	}
	nw := 1 + verifrt.Fork("words", maxW)
	var words []string
	for i := 0; i < nw; i++ {
		n := 1 + verifrt.Fork("wlen", maxC)
		w := make([]byte, n)
		for j := range w {
			w[j] = c40char("ch", j == 0)
		}
		// a word may also start with a digit as long as it has a letter: swap the first two
		if n > 1 && verifrt.NondetBool("swap") {
			w[0], w[1] = w[1], w[0]
		}
		words = append(words, string(w))
	}
	nd := 1 + verifrt.Fork("digits", maxD)
	digits := make([]byte, nd)
	want := 0
	for j := range digits {
		d := verifrt.NondetUint8("digit")
		verifrt.Assume(d >= '0' && d <= '9')
		digits[j] = d
		want = want*10 + int(d-'0')
	}
	pos := verifrt.Fork("pos", nw+1)
	msg, typ := "", ""
	for i := 0; i <= nw; i++ {
		if i == pos {
			if msg != "" {
				msg += "_"
			}
			msg += string(digits)
		}
		if i < nw {
			if msg != "" {
				msg += "_"
			}
			msg += words[i]
			if typ != "" {
				typ += "_"
			}
			typ += words[i]
		}
	}
	code := verifrt.NondetInt("code")
	e := New(code, msg)
	verifrt.Assert(e.Code == code && e.Message == msg, "C40.parse.kept")
	verifrt.Assert(e.Type == typ, "C40.parse.type")
	verifrt.Assert(e.Argument == want, "C40.parse.argument")
	verifrt.Assert(e.IsType(typ) && Is(e, typ), "C40.parse.istype")
	verifrt.Reach("C40.parse.end")
}

// VerifC40_any: arbitrary ASCII messages of up to 5 bytes never make the parser panic, and a message
// without a digit-only part keeps Type == Message and Argument == 0.
func VerifC40_any() {
	n := verifrt.Fork("len", 6)
	raw := verifrt.NondetBytes("raw", n)
	for _, c := range raw {
		verifrt.Assume(c < 0x80) // ASCII: multi-byte UTF-8 sequences are outside this harness
	}
	var e *Error
	ok := verifrt.NoPanic(func() { e = New(400, string(raw)) })
	verifrt.Assert(ok, "C40.any.nopanic")
	if !ok {
		return
	}
	hasDigit := false
	for _, c := range raw {
		if c >= '0' && c <= '9' {
			hasDigit = true
		}
	}
	if !hasDigit {
		verifrt.Assert(e.Argument == 0, "C40.any.noargument")
	}
	_ = e.Error()
	verifrt.Reach("C40.any.end")
}

// VerifC40_flood: FLOOD_WAIT_n and FLOOD_PREMIUM_WAIT_n make FloodWait sleep exactly n+1 seconds
// (virtual clock) and report true; a cancelled context ends the wait with its error; any other
// error is handed back at once.
func VerifC40_flood() {
	verifrt.Bubble(func() {
		kind := verifrt.Fork("kind", 3)
		n := []int{0, 1, 29, 3600}[verifrt.Fork("n", 4)]
		var err error
		switch kind {
		case 0:
			err = New(420, "FLOOD_WAIT_"+strconv.Itoa(n))
		case 1:
			err = New(420, "FLOOD_PREMIUM_WAIT_"+strconv.Itoa(n))
		default:
			err = New(400, "PEER_FLOOD_"+strconv.Itoa(n))
		}
		d, isFlood := AsFloodWait(err)
		verifrt.Assert(isFlood == (kind != 2), "C40.flood.kind")
		if isFlood {
			verifrt.Assert(d == time.Duration(n)*time.Second, "C40.flood.duration")
		}
		ctx, cancel := context.WithCancel(context.Background())
		defer cancel()
		cancelFirst := verifrt.NondetBool("cancel")
		start := time.Now()
		var got bool
		var gotErr error
		done := false
		go func() {
			got, gotErr = FloodWait(ctx, err)
			done = true
		}()
		verifrt.Settle()
		if kind == 2 {
			verifrt.Assert(done && !got && gotErr == err, "C40.flood.passthrough")
			verifrt.Reach("C40.flood.other")
			return
		}
		if cancelFirst {
			verifrt.Advance(time.Duration(n) * time.Second)
			verifrt.Assert(!done, "C40.flood.margin")
			cancel()
			verifrt.Settle()
			verifrt.Assert(done && !got && gotErr == context.Canceled, "C40.flood.cancelled")
			verifrt.Reach("C40.flood.cancelled")
			return
		}
		verifrt.Advance(time.Duration(n)*time.Second + 999*time.Millisecond)
		verifrt.Assert(!done, "C40.flood.notearly")
		verifrt.Advance(time.Millisecond)
		verifrt.Assert(done && got && gotErr == err, "C40.flood.waited")
		verifrt.Assert(time.Since(start) == time.Duration(n+1)*time.Second, "C40.flood.exact")
		verifrt.Reach("C40.flood.waited")
	})
}
