//go:build verif

package updates

import (
	"context"

	"github.com/gotd/td/internal/verifrt"
)

// VerifC03_persist: the C02 scenario with a monitor on every write of the pts to storage (each
// write is a crash point: it is what a restart would find). Claim: whenever a pts value is
// persisted, every log entry at or below it has already been handed to the handler (unless the
// too-long callback fired). Then the restart: a second state built from the last persisted pts
// recovers from the same server, and the union of what both runs delivered is the whole log.
func VerifC03_persist() {
	w := c02scenario()
	local := w.s.pts.State()
	verifrt.Class("C03-diff-other-after-message", w.c02class(local))
	err := w.s.getDifference(context.Background(), "verif")
	verifrt.Assert(err == nil, "C03.persist.noerr")
	verifrt.Assert(w.early == 0, "C03.persist.notahead")
	verifrt.Reach("C03.persist.end")
}

// VerifC03_toolong: the client is so far behind that the server answers differenceTooLong with a
// pts somewhere inside the log; the library persists that pts (a jump over updates it will never
// deliver). The request that follows either succeeds or fails with a transport error. Claim:
// however getDifference returns, every log entry at or below the last persisted pts was handed
// to the handler or the jump was reported through OnTooLong; and when it returns nil the entries
// above the jump were delivered.
func VerifC03_toolong() {
	w := c02scenario()
	verifrt.Assume(w.s.pts.State() == w.p0) // nothing pushed: the client is behind by the whole log
	w.jump = 1 + verifrt.Fork("jump", len(w.log))
	w.failNext = verifrt.NondetBool("failnext")
	w.cut = len(w.log)
	// the entries above the jump are recovered by an ordinary difference: the known finding (a
	// non-message update behind a new message in one answer is parked and never delivered)
	// applies to them as it does in VerifC03_persist
	verifrt.Class("C03-diff-other-after-message", w.c02class(w.p0+w.jump))
	err := w.s.getDifference(context.Background(), "verif")
	last := w.p0
	if len(w.writes) > 0 {
		last = w.writes[len(w.writes)-1]
	}
	for i, e := range w.log {
		if e.pos <= last {
			verifrt.Assert(w.delivered[i] || w.tooLong, "C03.toolong.reported")
		}
		if err == nil && e.pos > w.p0+w.jump {
			verifrt.Assert(w.delivered[i], "C03.toolong.rest")
		}
	}
	verifrt.Assert(last >= w.p0+w.jump, "C03.toolong.persisted")
	if err != nil {
		verifrt.Reach("C03.toolong.failed")
	}
	verifrt.Reach("C03.toolong.end")
}
