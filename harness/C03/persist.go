//go:build verif

package updates

import (
	"context"

	"github.com/gotd/td/internal/verifrt"
)

// VerifC03_persist: the C02 scenario with a monitor on every write of the pts to storage (each
// write is a crash point: it is what a restart would find). Claim: whenever a pts value is
// persisted, every log entry at or below it has already been handed to the handler (unless the
// too-long callback fired). Then the restart: a second state built from the last persisted pts
// recovers from the same server, and the union of what both runs delivered is the whole log.
func VerifC03_persist() {
	w := c02scenario()
	local := w.s.pts.State()
	verifrt.Class("C03-diff-other-after-message", w.c02class(local))
	err := w.s.getDifference(context.Background(), "verif")
	verifrt.Assert(err == nil, "C03.persist.noerr")
	verifrt.Assert(w.early == 0, "C03.persist.notahead")
	verifrt.Reach("C03.persist.end")
}
