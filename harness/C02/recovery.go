//go:build verif

package updates

import (
	"context"
	"errors"

	"go.opentelemetry.io/otel/trace/noop"
	"golang.org/x/sync/errgroup"

	"github.com/gotd/td/internal/verifrt"
	"github.com/gotd/td/telegram"
	"github.com/gotd/td/tg"
)

// Scenario shared by C02 and C03: the common pts sequence of an internalState built by newState
// (real handleUpdates / handleSeq / applyCombined / handlePts / sequenceBox / applyPts /
// getDifference), a server log of n entries at consecutive positions p0+1..p0+n — each a new
// message or a pts-bearing non-message update (deleteMessages) —, any subset of them pushed (the
// rest lost), then recovery through updates.getDifference answered from the log (messages in
// new_messages, the others in other_updates), in one piece or as a slice followed by the rest.

type c02entry struct {
	msg bool
	pos int // the update covers (pos-1, pos]
}

type c02world struct {
	p0        int
	log       []c02entry
	delivered []bool
	writes    []int // every persisted pts, in order
	tooLong   bool
	cut       int // entries served in the first (slice) answer; len(log) = one piece
	s         *internalState
	hasEnc    bool // the server log also holds one secret-chat message (qts 1), seen only through the difference
	encSeen   bool
	early     int // C03: persisted pts seen while an entry at or below it was not yet delivered
	jump      int  // C03 too-long mode: the first recovery request is answered differenceTooLong{pts: p0+jump}
	failNext  bool // ... and the request after it fails with a transport error
	calls     int
}

func (w *c02world) update(i int) tg.UpdateClass {
	e := w.log[i]
	if e.msg {
		return &tg.UpdateNewMessage{Message: &tg.Message{ID: 1000 + i, PeerID: &tg.PeerChat{ChatID: 5}}, Pts: e.pos, PtsCount: 1}
	}
	return &tg.UpdateDeleteMessages{Messages: []int{1000 + i}, Pts: e.pos, PtsCount: 1}
}

func (w *c02world) Handle(ctx context.Context, u tg.UpdatesClass) error {
	ups, ok := u.(*tg.Updates)
	if !ok {
		return nil
	}
	for _, x := range ups.Updates {
		switch x := x.(type) {
		case *tg.UpdateNewMessage:
			if m, ok := x.Message.(*tg.Message); ok && m.ID >= 1000 && m.ID < 1000+len(w.log) {
				w.delivered[m.ID-1000] = true
			}
		case *tg.UpdateNewEncryptedMessage:
			if m, ok := x.Message.(*tg.EncryptedMessage); ok && m.RandomID == 777 {
				w.encSeen = true
			}
		case *tg.UpdateDeleteMessages:
			if len(x.Messages) == 1 && x.Messages[0] >= 1000 && x.Messages[0] < 1000+len(w.log) {
				w.delivered[x.Messages[0]-1000] = true
			}
		}
	}
	return nil
}

// persisted is called with every pts value written to storage.
func (w *c02world) persisted(pts int) {
	w.writes = append(w.writes, pts)
	if w.tooLong {
		return
	}
	for i, e := range w.log {
		if e.pos <= pts && !w.delivered[i] {
			w.early++
		}
	}
}

type c02storage struct {
	*memStorage
	w *c02world
}

func (s c02storage) SetPts(ctx context.Context, userID int64, pts int) error {
	s.w.persisted(pts)
	return s.memStorage.SetPts(ctx, userID, pts)
}

func (s c02storage) SetState(ctx context.Context, userID int64, st State) error {
	s.w.persisted(st.Pts)
	return s.memStorage.SetState(ctx, userID, st)
}

func (w *c02world) UpdatesGetState(ctx context.Context) (*tg.UpdatesState, error) {
	return &tg.UpdatesState{Pts: w.p0 + len(w.log)}, nil
}

func (w *c02world) UpdatesGetDifference(ctx context.Context, r *tg.UpdatesGetDifferenceRequest) (tg.UpdatesDifferenceClass, error) {
	w.calls++
	if w.jump > 0 && w.calls == 1 {
		return &tg.UpdatesDifferenceTooLong{Pts: w.p0 + w.jump}, nil
	}
	if w.failNext && w.calls == 2 {
		return nil, errors.New("verif: transport error")
	}
	var msgs []tg.MessageClass
	var others []tg.UpdateClass
	end := w.p0 + len(w.log)
	served := 0
	last := r.Pts
	for i, e := range w.log {
		if e.pos <= r.Pts {
			continue
		}
		if r.Pts == w.p0+0 && w.cut < len(w.log) && served >= w.cut && false {
			break
		}
		if w.cut < len(w.log) && e.pos > w.p0+w.cut && r.Pts < w.p0+w.cut {
			break // first answer is a slice up to the cut
		}
		served++
		last = e.pos
		if e.msg {
			msgs = append(msgs, w.update(i).(*tg.UpdateNewMessage).Message)
		} else {
			others = append(others, w.update(i))
		}
	}
	var enc []tg.EncryptedMessageClass
	qts := r.Qts
	if w.hasEnc && r.Qts < 1 {
		enc = append(enc, &tg.EncryptedMessage{RandomID: 777, ChatID: 3, Date: 1, Bytes: []byte{1, 2, 3, 4}, File: &tg.EncryptedFileEmpty{}})
		qts = 1
	}
	if served == 0 && len(enc) == 0 {
		return &tg.UpdatesDifferenceEmpty{}, nil
	}
	st := tg.UpdatesState{Pts: last, Qts: qts}
	if last < end {
		return &tg.UpdatesDifferenceSlice{NewMessages: msgs, NewEncryptedMessages: enc, OtherUpdates: others, IntermediateState: st}, nil
	}
	return &tg.UpdatesDifference{NewMessages: msgs, NewEncryptedMessages: enc, OtherUpdates: others, State: st}, nil
}

func (w *c02world) UpdatesGetChannelDifference(ctx context.Context, r *tg.UpdatesGetChannelDifferenceRequest) (tg.UpdatesChannelDifferenceClass, error) {
	return &tg.UpdatesChannelDifferenceEmpty{Final: true}, nil
}

// c02class: the input class of the known finding "other_updates entry behind a new message":
// the answer to the recovery request carries a non-message pts update that is preceded, in the
// same answer, by a new message (so that its start lies above the local pts while new_messages
// bypass the sequence box).
func (w *c02world) c02class(local int) bool {
	seenMsg := false
	for _, e := range w.log {
		if e.pos <= local {
			continue
		}
		if e.msg {
			seenMsg = true
		} else if seenMsg {
			return true
		}
	}
	return false
}

func c02scenario() *c02world {
	n := 2
	if verifrt.Tier() == 1 {
		n = 3
	}
	w := &c02world{}
	w.p0 = verifrt.NondetInt("p0")
	verifrt.Assume(w.p0 >= 1 && w.p0 < 1<<30)
	for i := 0; i < n; i++ {
		w.log = append(w.log, c02entry{msg: verifrt.NondetBool("ismsg"), pos: w.p0 + i + 1})
	}
	w.delivered = make([]bool, n)
	w.hasEnc = verifrt.NondetBool("enc")
	w.cut = 1 + verifrt.Fork("cut", n) // 1..n ; n = one piece
	var g errgroup.Group
	w.s = newState(context.Background(), stateConfig{
		State:     State{Pts: w.p0},
		RawClient: w, Handler: telegram.UpdateHandler(w),
		OnChannelTooLong: func(int64) {}, OnChannelInaccessible: func(int64) {}, OnTooLong: func() { w.tooLong = true },
		Storage: c02storage{newMemStorage(), w}, Hasher: newMemAccessHasher(), UserHasher: newMemUserAccessHasher(),
		SelfID: 5, DiffLimit: 100, WorkGroup: &g, Tracer: noop.NewTracerProvider().Tracer("verif"),
	})
	ctx := context.Background()
	// delivery: each entry is pushed (in log order) or lost
	for i := range w.log {
		if verifrt.NondetBool("pushed") {
			err := w.s.handleUpdates(ctx, &tg.Updates{Updates: []tg.UpdateClass{w.update(i)}})
			verifrt.Assert(err == nil, "C02.scenario.push")
		}
	}
	return w
}

// VerifC02_recovery: after the pushes and one recovery (getDifference), every entry of the
// server log has been handed to the handler.
func VerifC02_recovery() {
	w := c02scenario()
	local := w.s.pts.State()
	verifrt.Class("C02-diff-other-after-message", w.c02class(local))
	err := w.s.getDifference(context.Background(), "verif")
	verifrt.Assert(err == nil, "C02.recovery.noerr")
	all := true
	for i := range w.log {
		if !w.delivered[i] {
			all = false
		}
	}
	verifrt.Assert(all || w.tooLong, "C02.recovery.alldelivered")
	verifrt.Assert(!w.hasEnc || w.encSeen, "C02.recovery.encrypted")
	verifrt.Assert(w.s.pts.State() == w.p0+len(w.log), "C02.recovery.state")
	verifrt.Reach("C02.recovery.end")
}
