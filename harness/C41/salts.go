//go:build verif

package salts

import (
	"time"

	"github.com/gotd/td/internal/verifrt"
	"github.com/gotd/td/mt"
)

// VerifC41_store: up to two Store batches of up to two future salts each (arbitrary values and
// validity windows; equal salt values carry equal windows, as the server's do), then Get with an
// arbitrary deadline, optionally after Reset.
// Claims: a salt returned by Get is one of the stored ones and its validity ends after the
// deadline; Get returns a salt whenever a stored salt is still valid after the deadline; after
// Reset nothing is returned.
func VerifC41_store() {
	var s Salts
	var all []mt.FutureSalt
	batches := 1 + verifrt.Fork("batches", 2)
	for b := 0; b < batches; b++ {
		n := 1 + verifrt.Fork("n", 2)
		var batch []mt.FutureSalt
		for j := 0; j < n; j++ {
			fs := mt.FutureSalt{
				ValidSince: verifrt.NondetInt("since"),
				ValidUntil: verifrt.NondetInt("until"),
				Salt:       verifrt.NondetInt64("salt"),
			}
			verifrt.Assume(fs.ValidSince >= 0 && fs.ValidSince <= fs.ValidUntil && fs.ValidUntil < 1<<31)
			for _, o := range all {
				verifrt.Assume(o.Salt != fs.Salt || (o.ValidSince == fs.ValidSince && o.ValidUntil == fs.ValidUntil))
			}
			all = append(all, fs)
			batch = append(batch, fs)
		}
		s.Store(batch)
	}
	d := verifrt.NondetInt64("deadline")
	verifrt.Assume(d >= 0 && d < 1<<31)
	reset := verifrt.NondetBool("reset")
	if reset {
		s.Reset()
	}
	got, ok := s.Get(time.Unix(d, 0))
	anyValid := false
	match := false
	for _, o := range all {
		if int64(o.ValidUntil) > d {
			anyValid = true
			if o.Salt == got {
				match = true
			}
		}
	}
	if reset {
		verifrt.Assert(!ok, "C41.store.reset")
		verifrt.Reach("C41.store.reset")
		return
	}
	if ok {
		verifrt.Assert(match, "C41.store.valid")
		verifrt.Reach("C41.store.got")
	} else {
		verifrt.Reach("C41.store.none")
	}
	verifrt.Assert(ok == anyValid, "C41.store.complete")
	// a second Get with the same deadline gives the same answer (expired salts were only filtered)
	got2, ok2 := s.Get(time.Unix(d, 0))
	verifrt.Assert(ok2 == ok && (!ok || got2 == got), "C41.store.stable")
	verifrt.Reach("C41.store.end")
}
