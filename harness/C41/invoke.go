//go:build verif

package mtproto

import (
	"context"
	"errors"
	"time"

	"github.com/gotd/log"

	"github.com/gotd/td/bin"
	"github.com/gotd/td/clock"
	"github.com/gotd/td/internal/verifrt"
	"github.com/gotd/td/mt"
	"github.com/gotd/td/proto"
	"github.com/gotd/td/rpc"
)

// verifC41Clk: a clock frozen at one instant (timers unused by the code under test here).
type verifC41Clk struct{ now time.Time }

func (c verifC41Clk) Now() time.Time                      { return c.now }
func (c verifC41Clk) Timer(d time.Duration) clock.Timer   { return clock.System.Timer(d) }
func (c verifC41Clk) Ticker(d time.Duration) clock.Ticker { return clock.System.Ticker(d) }

type verifC41Codec struct{ decoded int }

func (*verifC41Codec) Encode(*bin.Buffer) error  { return nil }
func (c *verifC41Codec) Decode(*bin.Buffer) error { c.decoded++; return nil }

type verifC41Send struct {
	id   int64
	seq  int32
	salt int64
}

// VerifC41_invoke: Conn.Invoke over a real rpc.Engine whose transport is the harness. The server
// answers the first transmission with bad_server_salt(new salt) delivered through the real
// handleBadMsg; the second transmission is answered with a result, with another bad_server_salt,
// or with a different bad_msg_notification.
// Claims: the request is transmitted exactly twice, both times with the same msg id and seq no;
// the connection's salt equals the server's new salt before the second transmission (and the
// stored future salts are dropped); a second bad salt is reported to the caller, not retried again.
func VerifC41_invoke() {
	verifrt.Bubble(func() {
		second := verifrt.Fork("second", 3)
		old := verifrt.NondetInt64("oldsalt")
		newSalt := verifrt.NondetInt64("newsalt")
		newSalt2 := verifrt.NondetInt64("newsalt2")
		var sec, nsec int64 = 1700000000, 0
		c := &Conn{
			messageID: proto.NewMessageIDGen(func() time.Time { nsec += 1000; return time.Unix(sec, nsec) }),
			log:       log.For(log.Nop),
			salt:      old,
		}
		c.salts.Store([]mt.FutureSalt{{ValidSince: 0, ValidUntil: 1 << 30, Salt: verifrt.NondetInt64("future")}})
		var sends []verifC41Send
		var pending []func()
		c.rpc = rpc.New(func(ctx context.Context, msgID int64, seqNo int32, in bin.Encoder) error {
			c.sessionMux.RLock()
			salt := c.salt
			c.sessionMux.RUnlock()
			sends = append(sends, verifC41Send{msgID, seqNo, salt})
			n := len(sends)
			pending = append(pending, func() {
				b := &bin.Buffer{}
				switch {
				case n == 1:
					_ = (&mt.BadServerSalt{BadMsgID: msgID, BadMsgSeqno: int(seqNo), ErrorCode: codeIncorrectServerSalt, NewServerSalt: newSalt}).Encode(b)
					_ = c.handleBadMsg(b)
				case second == 0:
					_ = c.rpc.NotifyResult(msgID, &bin.Buffer{})
				case second == 1:
					_ = (&mt.BadServerSalt{BadMsgID: msgID, BadMsgSeqno: int(seqNo), ErrorCode: codeIncorrectServerSalt, NewServerSalt: newSalt2}).Encode(b)
					_ = c.handleBadMsg(b)
				default:
					_ = (&mt.BadMsgNotification{BadMsgID: msgID, BadMsgSeqno: int(seqNo), ErrorCode: codeMessageIDTooLow}).Encode(b)
					_ = c.handleBadMsg(b)
				}
			})
			return nil
		}, rpc.Options{})
		out := &verifC41Codec{}
		var err error
		done := false
		go func() {
			err = c.Invoke(context.Background(), &verifC41Codec{}, out)
			done = true
		}()
		for step := 0; step < 4 && !done; step++ {
			verifrt.Settle()
			if len(pending) > 0 {
				f := pending[0]
				pending = pending[1:]
				f()
			}
		}
		verifrt.Settle()
		verifrt.Assert(done, "C41.invoke.returns")
		verifrt.Assert(len(sends) == 2, "C41.invoke.twice")
		if len(sends) == 2 {
			verifrt.Assert(sends[0].id == sends[1].id && sends[0].seq == sends[1].seq, "C41.invoke.samerequest")
			verifrt.Assert(sends[0].salt == old, "C41.invoke.firstsalt")
			verifrt.Assert(sends[1].salt == newSalt, "C41.invoke.newsalt")
		}
		_, have := c.salts.Get(time.Unix(1, 0))
		verifrt.Assert(!have, "C41.invoke.saltsreset")
		switch second {
		case 0:
			verifrt.Assert(err == nil && out.decoded == 1, "C41.invoke.result")
		case 1:
			var bad *badMessageError
			verifrt.Assert(errors.As(err, &bad) && bad.Code == codeIncorrectServerSalt && bad.NewSalt == newSalt2, "C41.invoke.secondbad")
		default:
			var bad *badMessageError
			verifrt.Assert(errors.As(err, &bad) && bad.Code == codeMessageIDTooLow, "C41.invoke.othererr")
		}
		verifrt.Reach("C41.invoke.end")
	})
}

// VerifC41_update: updateSalt picks, from the stored future salts, one whose validity ends after
// now + 5 minutes, and leaves the current salt alone when there is none.
func VerifC41_update() {
	now := verifrt.NondetInt64("now")
	verifrt.Assume(now >= 1000000000 && now < 2000000000)
	cur := verifrt.NondetInt64("cur")
	c := &Conn{log: log.For(log.Nop), salt: cur, clock: verifC41Clk{time.Unix(now, 0)}}
	var all []mt.FutureSalt
	n := 1 + verifrt.Fork("n", 2)
	for j := 0; j < n; j++ {
		fs := mt.FutureSalt{ValidSince: verifrt.NondetInt("since"), ValidUntil: verifrt.NondetInt("until"), Salt: verifrt.NondetInt64("salt")}
		verifrt.Assume(fs.ValidSince >= 0 && fs.ValidSince <= fs.ValidUntil && fs.ValidUntil < 1<<31)
		for _, o := range all {
			verifrt.Assume(o.Salt != fs.Salt)
		}
		all = append(all, fs)
	}
	c.salts.Store(all)
	c.updateSalt()
	anyValid, match := false, false
	for _, o := range all {
		if int64(o.ValidUntil) > now+300 {
			anyValid = true
			if o.Salt == c.salt {
				match = true
			}
		}
	}
	if anyValid {
		verifrt.Assert(match, "C41.update.valid")
		verifrt.Reach("C41.update.changed")
	} else {
		verifrt.Assert(c.salt == cur, "C41.update.kept")
		verifrt.Reach("C41.update.kept")
	}
	verifrt.Reach("C41.update.end")
}
