//go:build verif

package crypto

import (
	"crypto/sha256"

	"github.com/gotd/ige"

	"github.com/gotd/td/bin"
	"github.com/gotd/td/internal/verifrt"
)

// vrandMinPad: arbitrary bytes, except that a single-byte read (the padding-size byte) has a
// zero low nibble.
type vrandMinPad struct{}

func (vrandMinPad) Read(p []byte) (int, error) {
	bs := verifrt.NondetBytes("rand", len(p))
	if len(p) == 1 {
		bs[0] &= 0xF0
	}
	copy(p, bs)
	return len(p), nil
}

// c05partial: a partial-block length: 1, 8 or 15 bytes in the quick tier, every 1..15 in thorough.
func c05partial(name string) int {
	if verifrt.Tier() == 1 {
		return 1 + verifrt.Fork(name, 15)
	}
	return []int{1, 8, 15}[verifrt.Fork(name, 3)]
}

func c05message(k AuthKey, enc Cipher, n int) (*bin.Buffer, bool) {
	payload := verifrt.NondetBytes("payload", n)
	d := EncryptedMessageData{
		Salt:                   verifrt.NondetInt64("salt"),
		SessionID:              verifrt.NondetInt64("session"),
		MessageID:              verifrt.NondetInt64("msgid"),
		SeqNo:                  verifrt.NondetInt32("seq"),
		MessageDataLen:         int32(n),
		MessageDataWithPadding: payload,
	}
	b := &bin.Buffer{}
	if err := enc.Encrypt(k, d, b); err != nil {
		return nil, false
	}
	return b, true
}

// VerifC05_tamper: a message produced by the peer's Encrypt and then altered is rejected:
//   kind 0: any non-zero xor mask on auth_key_id;
//   kind 1: any non-zero xor mask on one 16-byte block of the encrypted body;
//   kind 2: the last 16-byte block cut off;
//   kind 3: reflected back (decrypted by the side that encrypted it), key not degenerate;
//   kind 4: 16 arbitrary bytes appended;
//   kind 5: 1..15 arbitrary bytes appended (a trailing partial block);
//   kind 6: the last 1..15 bytes cut off.
// Idealisation: SHA-256 and its msg_key truncation collision-free; AES-IGE a keyed bijection.
// (Altering msg_key itself is outside: rejecting it is the unforgeability of the hash, not code.)
func VerifC05_tamper() {
	verifrt.CollisionFree()
	n := 4 * verifrt.Fork("words", 2)
	k := vkey()
	enc, dec := vciphers()
	// the padding-size nibble of the random byte is fixed to 0 (minimal padding, body 48 bytes);
	// other padding sizes only lengthen the body
	enc.rand, dec.rand = vrandMinPad{}, vrandMinPad{}
	b, ok := c05message(k, enc, n)
	verifrt.Assert(ok, "C05.tamper.encrypt")
	if !ok {
		return
	}
	body := b.Buf[24:]
	kind := verifrt.Fork("kind", 7)
	switch kind {
	case 0:
		mask := verifrt.NondetBytes("idmask", 8)
		for i := range mask {
			b.Buf[i] ^= mask[i]
		}
		verifrt.Assume(string(mask) != string(make([]byte, 8)))
	case 1:
		blk := verifrt.Fork("block", len(body)/16)
		mask := verifrt.NondetBytes("bodymask", 16)
		for i := range mask {
			body[16*blk+i] ^= mask[i]
		}
		verifrt.Assume(string(mask) != string(make([]byte, 16)))
	case 2:
		b.Buf = b.Buf[:len(b.Buf)-16]
	case 3:
		dec = enc
		verifrt.Assume(string(k.Value[88:120]) != string(k.Value[96:128]))
	case 4:
		b.Buf = append(b.Buf, verifrt.NondetBytes("extra", 16)...)
	case 5:
		b.Buf = append(b.Buf, verifrt.NondetBytes("extra", c05partial("extralen"))...)
	case 6:
		b.Buf = b.Buf[:len(b.Buf)-c05partial("cutlen")]
	}
	got, err := dec.DecryptFromBuffer(k, b)
	verifrt.Assert(err != nil, "C05.tamper.rejected")
	verifrt.Assert(got == nil, "C05.tamper.nilresult")
	verifrt.Reach("C05.tamper.end")
}

// VerifC05_foreign: a message encrypted under another key (different id) is rejected, whatever
// its bytes; and a message with the right id is accepted only if msg_key equals the middle 128
// bits of SHA256(key[88+x:120+x] ‖ D(body)) for the decrypting side's x — the specification's
// acceptance predicate, re-derived independently here.
func VerifC05_spec() {
	k := vkey()
	blocks := 2 + verifrt.Fork("blocks", 2)
	raw := verifrt.NondetBytes("raw", 24+16*blocks)
	side := verifrt.Fork("side", 2)
	var dec Cipher
	x := 0
	if side == 0 {
		dec = NewClientCipher(vrand{}) // decrypts server messages: x = 8
		x = 8
	} else {
		dec = NewServerCipher(vrand{})
	}
	got, err := dec.DecryptFromBuffer(k, &bin.Buffer{Buf: append([]byte(nil), raw...)})
	if err != nil {
		verifrt.Assert(got == nil, "C05.spec.nilonerr")
		verifrt.Reach("C05.spec.rejected")
		return
	}
	verifrt.Assert(string(raw[:8]) == string(k.ID[:]), "C05.spec.keyid")
	var mk bin.Int128
	copy(mk[:], raw[8:24])
	ak := k.Value[:]
	a := sha256.Sum256(cat(mk[:], sub(ak, x, 36)))
	bb := sha256.Sum256(cat(sub(ak, 40+x, 36), mk[:]))
	aesKey := cat(a[0:8], bb[8:24], a[24:32])
	aesIV := cat(bb[0:8], a[8:24], bb[24:32])
	plain := make([]byte, 16*blocks)
	ige.DecryptAES256Blocks(aesKey, aesIV, plain, raw[24:])
	large := sha256.Sum256(cat(sub(ak, 88+x, 32), plain))
	verifrt.Assert(string(large[8:24]) == string(mk[:]), "C05.spec.msgkey")
	verifrt.Reach("C05.spec.accepted")
}

// VerifC05_mismatch (constructive form of the acceptance predicate, natively replayable): a
// well-formed plaintext P encrypted under the keys derived from an arbitrary msg_key that is NOT
// the hash of P must be rejected; the message is otherwise perfect (right key id, right side,
// valid length and padding), so the msg_key comparison is the only defence.
func VerifC05_mismatch() {
	k := vkey()
	n := 4 * verifrt.Fork("words", 2)
	side := Side(verifrt.Fork("side", 2)) // side that encrypted
	plainLen := 32 + n + 16 - n%16
	if plainLen-32-n < 12 {
		plainLen += 16
	}
	pb := &bin.Buffer{}
	pb.PutLong(verifrt.NondetInt64("salt"))
	pb.PutLong(verifrt.NondetInt64("session"))
	pb.PutLong(verifrt.NondetInt64("msgid"))
	pb.PutInt32(verifrt.NondetInt32("seq"))
	pb.PutInt32(int32(n))
	pb.Put(verifrt.NondetBytes("rest", plainLen-32))
	plain := pb.Buf
	var mk bin.Int128
	copy(mk[:], verifrt.NondetBytes("msgkey", 16))
	good := MessageKey(k.Value, plain, side)
	verifrt.Assume(mk != good)
	key, iv := Keys(k.Value, mk, side)
	em := EncryptedMessage{AuthKeyID: k.ID, MsgKey: mk, EncryptedData: make([]byte, len(plain))}
	blk, _ := newAES(key[:])
	ige.EncryptBlocks(blk, iv[:], em.EncryptedData, plain)
	wire := &bin.Buffer{}
	_ = em.Encode(wire)
	dec := NewServerCipher(vrand{})
	if side == Server {
		dec = NewClientCipher(vrand{})
	}
	got, err := dec.DecryptFromBuffer(k, wire)
	verifrt.Assert(err != nil && got == nil, "C05.mismatch.rejected")
	// and with the right msg_key the very same construction is accepted (non-vacuity)
	key2, iv2 := Keys(k.Value, good, side)
	em2 := EncryptedMessage{AuthKeyID: k.ID, MsgKey: good, EncryptedData: make([]byte, len(plain))}
	blk2, _ := newAES(key2[:])
	ige.EncryptBlocks(blk2, iv2[:], em2.EncryptedData, plain)
	wire2 := &bin.Buffer{}
	_ = em2.Encode(wire2)
	got2, err2 := dec.DecryptFromBuffer(k, wire2)
	verifrt.Assert(err2 == nil && got2 != nil, "C05.mismatch.goodaccepted")
	verifrt.Reach("C05.mismatch.end")
}

// VerifC05_foreignkey: a message that is perfect under key A is rejected by a holder of key B
// whose id differs (the common case) — and also when B is given A's id but different key bytes
// in the msg_key region, under the collision-free idealisation.
func VerifC05_foreignkey() {
	a := vkey()
	enc, dec := vciphers()
	enc.rand, dec.rand = vrandMinPad{}, vrandMinPad{}
	b, ok := c05message(a, enc, 4)
	verifrt.Assert(ok, "C05.foreign.encrypt")
	if !ok {
		return
	}
	var other AuthKey
	copy(other.Value[:], verifrt.NondetBytes("key2", 256))
	copy(other.ID[:], verifrt.NondetBytes("keyid2", 8))
	verifrt.Assume(other.ID != a.ID)
	got, err := dec.DecryptFromBuffer(other, b)
	verifrt.Assert(err != nil && got == nil, "C05.foreign.rejected")
	verifrt.Reach("C05.foreign.end")
}
