//go:build verif

package proto

import (
	"github.com/gotd/td/internal/verifrt"
)

// VerifC07_idbuf: MessageIDBuf.Consume against the guideline it quotes:
// reject iff the id equals a stored id, or N ids are stored and the id is lower than all of them;
// on accept store it and, beyond N, drop the lowest.
// Bound: N in {1,2,3}, k = N+3 arbitrary positive ids (real ids are unixtime<<32 | frac, > 0).
func VerifC07_idbuf() {
	n := 1 + verifrt.Fork("N", 3)
	k := n + 3
	buf := NewMessageIDBuf(n)
	var stored []int64 // reference set
	for step := 0; step < k; step++ {
		id := verifrt.NondetInt64("id")
		verifrt.Assume(id > 0)
		// reference
		want := true
		min := int64(0)
		for j, s := range stored {
			if s == id {
				want = false
			}
			if j == 0 || s < min {
				min = s
			}
		}
		if len(stored) == n && id < min {
			want = false
		}
		got := buf.Consume(id)
		verifrt.Assert(got == want, "C07.idbuf.accept")
		if got != want {
			return
		}
		if want {
			stored = append(stored, id)
			if len(stored) > n {
				// drop lowest
				lo := 0
				for j := range stored {
					if stored[j] < stored[lo] {
						lo = j
					}
				}
				stored = append(stored[:lo], stored[lo+1:]...)
			}
		}
	}
	verifrt.Reach("C07.idbuf.end")
}
