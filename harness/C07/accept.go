//go:build verif

package mtproto

import (
	"errors"
	"time"

	"github.com/gotd/td/bin"
	"github.com/gotd/td/clock"
	"github.com/gotd/td/crypto"
	"github.com/gotd/td/internal/verifrt"
)

// VerifC07_msgid: checkMessageID(now, id) for every 64-bit id whose seconds field lies between
// 2001 and 2037 (the low 32 bits, read as a signed nanosecond count as MessageID.Time does, are
// arbitrary) and every clock reading in that range (quick tier: any reading within one fixed second). Reference (security guidelines): accept iff
// the two low bits say "from server" (1 or 3) and the id's time is at most 300 s behind and at
// most 30 s ahead of the clock.
func VerifC07_msgid() {
	id := verifrt.NondetInt64("id")
	sec := int64(1700000000) // quick: the clock's second is fixed, its nanoseconds arbitrary
	if verifrt.Tier() == 1 {
		sec = verifrt.NondetInt64("sec")
	}
	nsec := verifrt.NondetInt64("nsec")
	idSec := id >> 32
	idFrac := int64(int32(id))
	verifrt.Assume(idSec >= 1000000000 && idSec < 2140000000)
	verifrt.Assume(sec >= 1000000000 && sec < 2140000000 && nsec >= 0 && nsec < 1000000000)
	// created - now = d*10^9 + f with 0 <= f < 10^9 (normalised without multiplication)
	d, f := idSec-sec, idFrac-nsec
	for f < 0 {
		f += 1000000000
		d--
	}
	for f >= 1000000000 {
		f -= 1000000000
		d++
	}
	typeOK := id%4 == 1 || id%4 == 3
	timeOK := true
	if d < -300 { // more than 300 s in the past
		timeOK = false
	}
	if d > 30 || (d == 30 && f > 0) { // more than 30 s in the future
		timeOK = false
	}
	err := checkMessageID(time.Unix(sec, nsec), id)
	verifrt.Assert((err == nil) == (typeOK && timeOK), "C07.msgid.window")
	if err != nil {
		verifrt.Assert(errors.Is(err, errRejected), "C07.msgid.rejectederror")
		verifrt.Reach("C07.msgid.rejected")
	} else {
		verifrt.Reach("C07.msgid.accepted")
	}
}

// c07clock is a clock that stands still (the same instant under the engine and natively).
type c07clock struct{}

func (c07clock) Now() time.Time                      { return time.Unix(1700000000, 500000000) }
func (c07clock) Timer(d time.Duration) clock.Timer   { return clock.System.Timer(d) }
func (c07clock) Ticker(d time.Duration) clock.Ticker { return clock.System.Ticker(d) }

// VerifC07_session: Conn.decryptMessage on a message whose session id, message id and the clock
// are arbitrary (the cipher is a fake handing over the "decrypted" fields). Claims: a message of
// another session is rejected with errRejected and leaves the replay buffer untouched; a message
// that fails the id/time check never reaches the replay buffer either; an accepted message is
// recorded, and presenting the same message again is rejected.
func VerifC07_session() {
	h := newVerifMT()
	c := h.c
	c.clock = c07clock{}
	mine := verifrt.NondetInt64("mysession")
	c.sessionID = mine
	sid := verifrt.NondetInt64("session")
	// an id that is fresh for the virtual clock (decided by the real checkMessageID below)
	id := verifrt.NondetInt64("id")
	h.decrypted = &crypto.EncryptedMessageData{SessionID: sid, MessageID: id, SeqNo: 1}
	msg, err := c.decryptMessage(&bin.Buffer{})
	fresh := checkMessageID(c.clock.Now(), id) == nil
	switch {
	case sid != mine:
		verifrt.Assert(msg == nil && errors.Is(err, errRejected), "C07.session.othersession")
		verifrt.Reach("C07.session.othersession")
	case !fresh:
		verifrt.Assert(msg == nil && errors.Is(err, errRejected), "C07.session.stale")
	default:
		verifrt.Assert(err == nil && msg != nil && msg.MessageID == id, "C07.session.accepted")
		verifrt.Reach("C07.session.accepted")
	}
	// the very same message again: accepted at most once
	msg2, err2 := c.decryptMessage(&bin.Buffer{})
	verifrt.Assert(msg2 == nil && errors.Is(err2, errRejected), "C07.session.replayrejected")
	// a rejected message must not have been recorded: an id that was rejected for its session
	// can still be accepted when it comes in the right session
	if sid != mine && fresh {
		h.decrypted.SessionID = mine
		_, err3 := c.decryptMessage(&bin.Buffer{})
		verifrt.Assert(err3 == nil, "C07.session.notrecorded")
	}
	verifrt.Reach("C07.session.end")
}
