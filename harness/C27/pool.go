//go:build verif

package pool

import (
	"context"
	"errors"
	"sync"

	"github.com/gotd/td/bin"
	"github.com/gotd/td/internal/verifrt"
)

// Scenario harness shared by C27 and C28: a real pool.DC with max in {1,2}, three callers of
// DC.Invoke and harness connections whose life cycle is driven by events: a caller starts, a
// connection becomes ready, a connection dies (its Run returns), a caller is cancelled, the
// Invoke in progress on a connection completes (success, retryable error, other error). After
// every event everything runs until all goroutines are blocked; which enabled event comes next is
// a symbolic choice, so every sequence of `steps` events is explored. The monitors sit in the
// fakes (C27) and at every quiescent point (C28).

var (
	errVerifConnKilled = errors.New("verif: connection died")
	errVerifOther      = errors.New("verif: request failed")
)

type verifConn struct {
	h       *verifPool
	id      int
	ready   chan struct{}
	kill    chan struct{}
	finish  chan error
	isReady bool
	killed  bool // the harness has told Run to return
	dead    bool // Run has returned
	active  int  // Invoke calls in progress
	completing bool // a completion has been handed to the Invoke in progress
	user    int  // caller running the Invoke in progress
}

func (c *verifConn) Run(ctx context.Context) error {
	var err error
	select {
	case <-ctx.Done():
		err = ctx.Err()
	case <-c.kill:
		err = errVerifConnKilled
	}
	c.h.mu.Lock()
	c.dead = true
	c.h.mu.Unlock()
	return err
}

func (c *verifConn) Invoke(ctx context.Context, input bin.Encoder, output bin.Decoder) error {
	h := c.h
	h.mu.Lock()
	if c.active > 0 {
		h.shared++
	}
	if c.dead {
		h.deadUse++
	}
	c.active++
	c.completing = false
	k := input.(verifCaller).k
	c.user = k
	h.using[k] = c.id
	h.mu.Unlock()
	var err error
	select {
	case err = <-c.finish:
	case <-ctx.Done():
		err = ctx.Err()
	}
	h.mu.Lock()
	c.active--
	h.using[k] = -1
	h.mu.Unlock()
	return err
}

func (c *verifConn) Ping(ctx context.Context) error { return nil }
func (c *verifConn) Ready() <-chan struct{}          { return c.ready }

type verifCaller struct{ k int }

func (verifCaller) Encode(*bin.Buffer) error { return nil }
func (verifCaller) Decode(*bin.Buffer) error { return nil }

type verifPool struct {
	mu       sync.Mutex
	hooks    int // events still allowed inside call-outs (newConn, ctx.Err)
	mainRun  bool
	parked   []chan struct{}
	dc       *DC
	max      int64
	conns    []*verifConn
	overMax  int
	shared   int
	deadUse  int
	started  [3]bool
	returned [3]bool
	canceled [3]bool
	errs     [3]error
	cancel   [3]context.CancelFunc
	using    [3]int
}

func (h *verifPool) live() int {
	n := 0
	for _, c := range h.conns {
		if !c.dead && !c.killed {
			n++
		}
	}
	return n
}

func (h *verifPool) newConn() Conn {
	// call-out: the connection constructor may take a while; another caller may arrive meanwhile
	if h.hooks > 0 {
		for k := 0; k < 3; k++ {
			if !h.started[k] {
				if verifrt.Fork("hook@newconn", 2) == 1 {
					h.hooks--
					h.start(k)
					h.settle()
				}
				break
			}
		}
	}
	h.mu.Lock()
	defer h.mu.Unlock()
	c := &verifConn{h: h, id: len(h.conns), ready: make(chan struct{}), kill: make(chan struct{}), finish: make(chan error)}
	h.conns = append(h.conns, c)
	if int64(h.live()) > h.max {
		h.overMax++
	}
	return c
}

// settle: see the rpc scenario — verifrt.Settle on the harness goroutine, a park/release handshake
// from a call-out running on another goroutine.
func (h *verifPool) settle() {
	if h.mainRun {
		h.mainSettle()
		return
	}
	w := make(chan struct{})
	h.mu.Lock()
	h.parked = append(h.parked, w)
	h.mu.Unlock()
	<-w
}

func (h *verifPool) mainSettle() {
	h.mainRun = false
	for {
		verifrt.Settle()
		h.mu.Lock()
		n := len(h.parked)
		var w chan struct{}
		if n > 0 {
			w = h.parked[n-1]
			h.parked = h.parked[:n-1]
		}
		h.mu.Unlock()
		if w == nil {
			break
		}
		close(w)
	}
	h.mainRun = true
}

// verifCtx is the caller's context; its Err method is a call-out of acquire (right after it
// decided to give up) at which the harness may complete a request elsewhere, so that a connection
// is released while this caller is on its way out.
type verifCtx struct {
	context.Context
	h *verifPool
}

func (c verifCtx) Err() error {
	h := c.h
	if h.hooks > 0 && c.Context.Err() != nil {
		for _, vc := range h.conns {
			if h.completable(vc) && !vc.dead && !vc.killed {
				if verifrt.Fork("hook@ctxerr", 2) == 1 {
					h.hooks--
					vc.completing = true
					vc.finish <- nil
					h.settle()
				}
				break
			}
		}
	}
	return c.Context.Err()
}

func (h *verifPool) start(k int) {
	ctx, cancel := context.WithCancel(context.Background())
	h.cancel[k] = cancel
	h.started[k] = true
	h.using[k] = -1
	go func() {
		err := h.dc.Invoke(verifCtx{ctx, h}, verifCaller{k}, verifCaller{k})
		h.mu.Lock()
		h.errs[k] = err
		h.returned[k] = true
		h.mu.Unlock()
	}()
}

type verifEvent struct {
	kind int // 0 start caller, 1 conn ready, 2 conn dies, 3 cancel caller, 4 complete ok, 5 complete retryable, 6 complete other error
	arg  int
}

func (h *verifPool) enabled() []verifEvent {
	var ev []verifEvent
	for k := 0; k < 3; k++ {
		if !h.started[k] {
			ev = append(ev, verifEvent{0, k})
			break // callers are interchangeable: start them in order
		}
	}
	for _, c := range h.conns {
		if c.dead && c.active == 0 {
			continue
		}
		if !c.isReady && !c.killed {
			ev = append(ev, verifEvent{1, c.id})
		}
		if !c.killed {
			ev = append(ev, verifEvent{2, c.id})
		}
		if h.completable(c) {
			ev = append(ev, verifEvent{4, c.id}, verifEvent{5, c.id}, verifEvent{6, c.id})
		}
	}
	for k := 0; k < 3; k++ {
		if h.started[k] && !h.returned[k] && !h.canceled[k] {
			ev = append(ev, verifEvent{3, k})
		}
	}
	return ev
}

// completable: an Invoke is in progress on c, nothing has been handed to it yet and it is not
// already on its way out because its caller was cancelled.
func (h *verifPool) completable(c *verifConn) bool {
	return c.active > 0 && !c.completing && !h.canceled[c.user]
}

func (h *verifPool) apply(e verifEvent) {
	if e.kind >= 4 {
		h.conns[e.arg].completing = true
	}
	switch e.kind {
	case 0:
		h.start(e.arg)
	case 1:
		c := h.conns[e.arg]
		c.isReady = true
		close(c.ready)
	case 2:
		h.conns[e.arg].killed = true
		close(h.conns[e.arg].kill)
	case 3:
		h.canceled[e.arg] = true
		h.cancel[e.arg]()
	case 4:
		h.conns[e.arg].finish <- nil
	case 5:
		// a request fails with a "connection is gone" error only on a connection that is going
		// down: if it has not been told to die yet, it is now (simultaneously)
		c := h.conns[e.arg]
		c.finish <- ErrConnDead
		if !c.killed {
			c.killed = true
			close(c.kill)
		}
	case 6:
		h.conns[e.arg].finish <- errVerifOther
	}
}

// quiescent-point accounting for C28: liveReady = connections that are up (ready, not dying);
// connecting = connections still coming up; inUse = callers inside Invoke on a live connection.
func (h *verifPool) accounting() (liveReady, connecting, inUse, free, handing, waiters int, total int64) {
	dc := h.dc
	dc.mu.Lock()
	for _, pc := range dc.free {
		// dead connections left on the free list are discarded when popped: they are not capacity
		if c := pc.Conn.(*verifConn); !c.dead && !c.killed {
			free++
		}
	}
	total = dc.total
	dc.mu.Unlock()
	dc.freeReq.mux.Lock()
	waiters = len(dc.freeReq.m)
	for _, ch := range dc.freeReq.m {
		handing += len(ch)
	}
	_ = handing
	dc.freeReq.mux.Unlock()
	for k := 0; k < 3; k++ {
		if h.started[k] && !h.returned[k] {
			if i := h.using[k]; i >= 0 {
				// a caller whose connection died under it is about to come back: it holds no capacity
				if c := h.conns[i]; !c.dead && !c.killed {
					inUse++
				}
			}
		}
	}
	for _, c := range h.conns {
		if c.dead || c.killed {
			continue
		}
		if c.isReady {
			liveReady++
		} else {
			connecting++
		}
	}
	return
}

func verifPoolScenario(steps int, monitor func(h *verifPool, step int)) *verifPool {
	h := &verifPool{hooks: 1, mainRun: true}
	h.max = int64(1 + verifrt.Fork("max", 2))
	h.dc = NewDC(context.Background(), 2, h.newConn, DCOptions{MaxOpenConnections: h.max})
	for s := 0; s < steps; s++ {
		ev := h.enabled()
		if len(ev) == 0 {
			break
		}
		e := ev[verifrt.Fork("ev", len(ev))]
		h.apply(e)
		h.mainSettle()
		if monitor != nil {
			monitor(h, s)
		}
	}
	return h
}

// stop ends the scenario: every caller is cancelled and the DC closed, so that no goroutine is
// left behind.
func (h *verifPool) stop() {
	for k := 0; k < 3; k++ {
		if h.started[k] {
			h.cancel[k]()
		}
	}
	h.dc.cancel()
	h.hooks = 0
	h.mainSettle()
}

func verifPoolSteps() int {
	if verifrt.Tier() == 1 {
		return 7
	}
	return 5
}

// VerifC27_limit: live connections never exceed max; a connection's Invoke is never entered while
// another Invoke on it is in progress, nor after the connection has died.
func VerifC27_limit() {
	verifrt.Bubble(func() {
		h := verifPoolScenario(verifPoolSteps(), nil)
		verifrt.Assert(h.overMax == 0, "C27.limit.max")
		verifrt.Assert(h.shared == 0, "C27.limit.notshared")
		verifrt.Class("C27-release-dead-to-waiter", h.deadUse > 0 && h.shared == 0 && h.overMax == 0)
		verifrt.Assert(h.deadUse == 0, "C27.limit.notdead")
		h.stop()
		verifrt.Reach("C27.limit.end")
	})
}
