//go:build verif

package messages

import (
	"context"

	"github.com/gotd/td/internal/verifrt"
	"github.com/gotd/td/tg"
)

// VerifC39_messages: Iterator over a server history of N messages with arbitrary strictly
// descending ids, page size l in 1..N+1, and the three paginated response kinds. The server is a
// reference implementation of messages.getHistory paging (messages with id below offset_id, newest
// first, at most limit of them; a plain messages.messages answer carries the whole rest).
// Claims: the ids yielded are exactly the history, in order, each once; iteration ends; no error.
func VerifC39_messages() {
	maxN := 3
	if verifrt.Tier() == 1 {
		maxN = 4
	}
	n := verifrt.Fork("n", maxN+1)
	ids := make([]int, n)
	for i := range ids {
		ids[i] = int(verifrt.NondetInt32("id"))
		verifrt.Assume(ids[i] > 0)
		if i > 0 {
			verifrt.Assume(ids[i] < ids[i-1])
		}
	}
	limit := 1 + verifrt.Fork("limit", n+1)
	kind := verifrt.Fork("kind", 3)
	q := QueryFunc(func(ctx context.Context, req Request) (tg.MessagesMessagesClass, error) {
		var rest []tg.MessageClass
		for _, id := range ids {
			if req.OffsetID == 0 || id < req.OffsetID {
				rest = append(rest, &tg.Message{ID: id, Date: id, PeerID: &tg.PeerUser{UserID: 10}})
			}
		}
		page := rest
		if kind != 0 && len(page) > req.Limit {
			page = page[:req.Limit]
		}
		// the server may list a page in any order; the iterator sorts (here: reversed)
		if verifrt.NondetBool("reversed") {
			for i, j := 0, len(page)-1; i < j; i, j = i+1, j-1 {
				page[i], page[j] = page[j], page[i]
			}
		}
		switch kind {
		case 0:
			return &tg.MessagesMessages{Messages: page}, nil
		case 1:
			return &tg.MessagesMessagesSlice{Messages: page, Count: n}, nil
		}
		return &tg.MessagesChannelMessages{Messages: page, Count: n}, nil
	})
	it := NewIterator(q, limit)
	ctx := context.Background()
	if verifrt.NondetBool("total") {
		// asking for the total first must not disturb the iteration
		total, err := it.Total(ctx)
		verifrt.Assert(err == nil && total == n, "C39.messages.total")
	}
	var got []int
	for step := 0; step < n+2; step++ {
		if !it.Next(ctx) {
			break
		}
		got = append(got, it.Value().Msg.GetID())
	}
	verifrt.Assert(it.Err() == nil, "C39.messages.noerr")
	verifrt.Assert(len(got) == n, "C39.messages.count")
	if len(got) == n {
		for i := range got {
			verifrt.Assert(got[i] == ids[i], "C39.messages.order")
		}
	}
	verifrt.Assert(!it.Next(ctx), "C39.messages.stops")
	verifrt.Reach("C39.messages.end")
}
