//go:build verif

package dialogs

import (
	"context"

	"github.com/gotd/td/internal/verifrt"
	"github.com/gotd/td/tg"
)

// VerifC39_dialogs: Iterator over a server list of N dialogs (one per user, each with a top
// message of arbitrary, strictly descending id/date), page size l in 1..N+1, answered as
// messages.dialogs (all at once) or messages.dialogsSlice (paged by offset peer, as the server
// does). Claims: every dialog is yielded exactly once, in the server's order; iteration ends.
func VerifC39_dialogs() {
	maxN := 3
	if verifrt.Tier() == 1 {
		maxN = 4
	}
	n := verifrt.Fork("n", maxN+1)
	tops := make([]int, n)
	for i := range tops {
		tops[i] = int(verifrt.NondetInt32("top"))
		verifrt.Assume(tops[i] > 0)
		if i > 0 {
			verifrt.Assume(tops[i] < tops[i-1])
		}
	}
	limit := 1 + verifrt.Fork("limit", n+1)
	sliced := verifrt.NondetBool("sliced")
	q := QueryFunc(func(ctx context.Context, req Request) (tg.MessagesDialogsClass, error) {
		start := 0
		if u, ok := req.OffsetPeer.(*tg.InputPeerUser); ok {
			for i := 0; i < n; i++ {
				if int64(100+i) == u.UserID {
					start = i + 1
				}
			}
		}
		end := n
		if sliced && end > start+req.Limit {
			end = start + req.Limit
		}
		var ds []tg.DialogClass
		var ms []tg.MessageClass
		var us []tg.UserClass
		for i := start; i < end; i++ {
			uid := int64(100 + i)
			ds = append(ds, &tg.Dialog{Peer: &tg.PeerUser{UserID: uid}, TopMessage: tops[i]})
			ms = append(ms, &tg.Message{ID: tops[i], Date: tops[i], PeerID: &tg.PeerUser{UserID: uid}})
			us = append(us, &tg.User{ID: uid, AccessHash: 7})
		}
		if !sliced {
			return &tg.MessagesDialogs{Dialogs: ds, Messages: ms, Users: us}, nil
		}
		return &tg.MessagesDialogsSlice{Dialogs: ds, Messages: ms, Users: us, Count: n}, nil
	})
	it := NewIterator(q, limit)
	ctx := context.Background()
	var got []int64
	for step := 0; step < n+2; step++ {
		if !it.Next(ctx) {
			break
		}
		p, _ := it.Value().Dialog.(*tg.Dialog).Peer.(*tg.PeerUser)
		got = append(got, p.UserID)
	}
	verifrt.Assert(it.Err() == nil, "C39.dialogs.noerr")
	verifrt.Assert(len(got) == n, "C39.dialogs.count")
	if len(got) == n {
		for i := range got {
			verifrt.Assert(got[i] == int64(100+i), "C39.dialogs.order")
		}
	}
	verifrt.Assert(!it.Next(ctx), "C39.dialogs.stops")
	verifrt.Reach("C39.dialogs.end")
}
