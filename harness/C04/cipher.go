//go:build verif

package crypto

import (
	"crypto/sha1"
	"crypto/sha256"

	"github.com/gotd/ige"

	"github.com/gotd/td/bin"
	"github.com/gotd/td/internal/verifrt"
)

// vrand hands out arbitrary bytes (the random source is an adversary-chosen input).
type vrand struct{}

func (vrand) Read(p []byte) (int, error) {
	copy(p, verifrt.NondetBytes("rand", len(p)))
	return len(p), nil
}

type vpayload []byte

func (p vpayload) Encode(b *bin.Buffer) error { b.Put(p); return nil }

func vkey() AuthKey {
	var k AuthKey
	copy(k.Value[:], verifrt.NondetBytes("key", 256))
	copy(k.ID[:], verifrt.NondetBytes("keyid", 8))
	return k
}

func vwords() int {
	max := 3 // payload 0,4,8 bytes
	if verifrt.Tier() == 1 {
		max = 9 // up to 32 bytes
	}
	return 4 * verifrt.Fork("words", max)
}

func vciphers() (enc, dec Cipher) {
	if verifrt.Fork("side", 2) == 0 {
		return NewClientCipher(vrand{}), NewServerCipher(vrand{})
	}
	return NewServerCipher(vrand{}), NewClientCipher(vrand{})
}

// VerifC04_roundtrip: what one side encrypts the other side decrypts to the same salt, session,
// message id, sequence number, length and payload; ciphertext is block aligned; padding 12..1024.
// Bound: payload 0..8 bytes (quick) / 0..32 (thorough); all keys, header values, random bytes;
// both directions; both encoder shapes.
func VerifC04_roundtrip() {
	n := vwords()
	k := vkey()
	enc, dec := vciphers()
	payload := verifrt.NondetBytes("payload", n)
	d := EncryptedMessageData{
		Salt:           verifrt.NondetInt64("salt"),
		SessionID:      verifrt.NondetInt64("session"),
		MessageID:      verifrt.NondetInt64("msgid"),
		SeqNo:          verifrt.NondetInt32("seq"),
		MessageDataLen: int32(n),
	}
	if verifrt.Fork("shape", 2) == 0 {
		d.MessageDataWithPadding = payload
	} else {
		d.Message = vpayload(payload)
	}
	b := &bin.Buffer{}
	err := enc.Encrypt(k, d, b)
	verifrt.Assert(err == nil, "C04.roundtrip.encrypt")
	if err != nil {
		return
	}
	total := b.Len()
	verifrt.Assert((total-24)%16 == 0, "C04.roundtrip.blockaligned")
	pad := total - 24 - 32 - n
	verifrt.Assert(pad >= 12 && pad <= 1024, "C04.roundtrip.padding")
	got, err := dec.DecryptFromBuffer(k, b)
	verifrt.Assert(err == nil && got != nil, "C04.roundtrip.decrypt")
	if err != nil || got == nil {
		return
	}
	verifrt.Assert(got.Salt == d.Salt && got.SessionID == d.SessionID && got.MessageID == d.MessageID && got.SeqNo == d.SeqNo, "C04.roundtrip.header")
	verifrt.Assert(int(got.MessageDataLen) == n, "C04.roundtrip.len")
	if int(got.MessageDataLen) == n {
		verifrt.Assert(string(got.Data()) == string(payload), "C04.roundtrip.payload")
	}
	verifrt.Reach("C04.roundtrip.end")
}

// VerifC04_padding: countPadding for every length up to 2^24 and every random byte:
// 12 <= padding <= 1024 and (l+padding) is a multiple of 16.
func VerifC04_padding() {
	l := verifrt.NondetInt("l")
	r := verifrt.NondetUint8("r")
	verifrt.Assume(l >= 0 && l <= 1<<24)
	p := countPadding(l, r)
	verifrt.Assert(p >= 12 && p <= 1024, "C04.padding.range")
	verifrt.Assert((l+p)%16 == 0, "C04.padding.aligned")
	verifrt.Reach("C04.padding.end")
}

// --- C06: key derivation against the specification --------------------------------------------

func sub(b []byte, off, n int) []byte { return b[off : off+n] }

func cat(parts ...[]byte) []byte {
	var r []byte
	for _, p := range parts {
		r = append(r, p...)
	}
	return r
}

// VerifC06_v2: MessageKey and Keys equal the MTProto 2.0 definitions written from the spec text.
func VerifC06_v2() {
	k := vkey()
	n := 16 * (1 + verifrt.Fork("blocks", 2))
	plaintext := verifrt.NondetBytes("plaintext", n)
	side := Side(verifrt.Fork("side", 2))
	x := 0
	if side == Server {
		x = 8
	}
	ak := k.Value[:]
	large := sha256.Sum256(cat(sub(ak, 88+x, 32), plaintext))
	var wantKey bin.Int128
	copy(wantKey[:], large[8:24])
	gotKey := MessageKey(k.Value, plaintext, side)
	verifrt.Assert(gotKey == wantKey, "C06.v2.msgkey")

	var mk bin.Int128
	copy(mk[:], verifrt.NondetBytes("msgkey", 16))
	a := sha256.Sum256(cat(mk[:], sub(ak, x, 36)))
	b := sha256.Sum256(cat(sub(ak, 40+x, 36), mk[:]))
	wantAES := cat(a[0:8], b[8:24], a[24:32])
	wantIV := cat(b[0:8], a[8:24], b[24:32])
	key, iv := Keys(k.Value, mk, side)
	verifrt.Assert(string(key[:]) == string(wantAES), "C06.v2.aeskey")
	verifrt.Assert(string(iv[:]) == string(wantIV), "C06.v2.aesiv")
	verifrt.Reach("C06.v2.end")
}

// VerifC06_v2sizes: msg_key over larger plaintexts, at the sizes where fixed-size buffers end:
// 2^k - 16, 2^k and 2^k + 16 bytes for k = 6..10 (quick) / 6..12 (thorough), both sides.
func VerifC06_v2sizes() {
	k := vkey()
	top := 5
	if verifrt.Tier() == 1 {
		top = 7
	}
	n := (64 << verifrt.Fork("pow", top)) + 16*(verifrt.Fork("off", 3)-1)
	plaintext := verifrt.NondetBytes("plaintext", n)
	side := Side(verifrt.Fork("side", 2))
	x := 0
	if side == Server {
		x = 8
	}
	large := sha256.Sum256(cat(sub(k.Value[:], 88+x, 32), plaintext))
	var wantKey bin.Int128
	copy(wantKey[:], large[8:24])
	verifrt.Assert(MessageKey(k.Value, plaintext, side) == wantKey, "C06.v2sizes.msgkey")
	verifrt.Reach("C06.v2sizes.end")
}

// VerifC06_v1: MessageKeyV1, KeysV1 and OldKeys equal the MTProto 1.0 definitions.
func VerifC06_v1() {
	k := vkey()
	plaintext := verifrt.NondetBytes("plaintext", 16)
	ak := k.Value[:]
	sum := sha1.Sum(plaintext)
	var want bin.Int128
	copy(want[:], sum[4:20])
	verifrt.Assert(MessageKeyV1(plaintext) == want, "C06.v1.msgkey")

	var mk bin.Int128
	copy(mk[:], verifrt.NondetBytes("msgkey", 16))
	for _, side := range []Side{Client, Server} {
		x := 0
		if side == Server {
			x = 8
		}
		a := sha1.Sum(cat(mk[:], sub(ak, x, 32)))
		b := sha1.Sum(cat(sub(ak, 32+x, 16), mk[:], sub(ak, 48+x, 16)))
		c := sha1.Sum(cat(sub(ak, 64+x, 32), mk[:]))
		d := sha1.Sum(cat(mk[:], sub(ak, 96+x, 32)))
		wantKey := cat(a[0:8], b[8:20], c[4:16])
		wantIV := cat(a[8:20], b[0:8], c[16:20], d[0:8])
		key, iv := OldKeys(k.Value, mk, side)
		verifrt.Assert(string(key[:]) == string(wantKey), "C06.v1.oldkey")
		verifrt.Assert(string(iv[:]) == string(wantIV), "C06.v1.oldiv")
		if side == Client {
			key1, iv1 := KeysV1(k.Value, mk)
			verifrt.Assert(string(key1[:]) == string(wantKey), "C06.v1.key")
			verifrt.Assert(string(iv1[:]) == string(wantIV), "C06.v1.iv")
		}
	}
	verifrt.Reach("C06.v1.end")
}

// VerifC06_bind: the bind message is MTProto 1.0 framed: auth_key_id = perm id, msg_key =
// SHA1(unpadded envelope)[4:20], and decrypting with KeysV1(perm, msg_key) gives
// random(16) msg_id seq=0 len inner; inner decodes to the same five fields.
func VerifC06_bind() {
	k := vkey()
	verifrt.Assume(!k.Zero())
	inner := &BindAuthKeyInner{
		Nonce:         verifrt.NondetInt64("nonce"),
		TempAuthKeyID: verifrt.NondetInt64("temp"),
		PermAuthKeyID: verifrt.NondetInt64("perm"),
		TempSessionID: verifrt.NondetInt64("session"),
		ExpiresAt:     int(verifrt.NondetInt32("expires")),
	}
	msgID := verifrt.NondetInt64("msgid")
	raw, err := EncryptBindMessage(vrand{}, k, msgID, inner)
	verifrt.Assert(err == nil, "C06.bind.noerr")
	if err != nil {
		return
	}
	var em EncryptedMessage
	verifrt.Assert(em.Decode(&bin.Buffer{Buf: raw}) == nil, "C06.bind.frame")
	verifrt.Assert(em.AuthKeyID == k.ID, "C06.bind.keyid")
	verifrt.Assert(len(em.EncryptedData)%16 == 0 && len(em.EncryptedData) >= 72, "C06.bind.aligned")
	key, iv := KeysV1(k.Value, em.MsgKey)
	plain := make([]byte, len(em.EncryptedData))
	ige.DecryptAES256Blocks(key[:], iv[:], plain, em.EncryptedData)
	// envelope is 16+8+4+4+40 = 72 bytes before padding
	sum := sha1.Sum(plain[:72])
	var want bin.Int128
	copy(want[:], sum[4:20])
	verifrt.Assert(em.MsgKey == want, "C06.bind.msgkey")
	pb := &bin.Buffer{Buf: plain[16:72]}
	gotID, _ := pb.Long()
	seq, _ := pb.Int32()
	ln, _ := pb.Int32()
	verifrt.Assert(gotID == msgID && seq == 0 && ln == 40, "C06.bind.envelope")
	var dec BindAuthKeyInner
	verifrt.Assert(dec.Decode(pb) == nil, "C06.bind.innerdecode")
	verifrt.Assert(dec == *inner, "C06.bind.inner")
	verifrt.Reach("C06.bind.end")
}

// --- C07c: padding / length acceptance in Decrypt ----------------------------------------------

// VerifC07_padding: Decrypt of a well-keyed message whose plaintext the peer built with an
// arbitrary MessageDataLen and total size: accepted only if len >= 0, len%4 == 0 and
// 12 <= padding <= 1024.
func VerifC07_padding() {
	k := vkey()
	blocks := 2 + verifrt.Fork("blocks", 3) // 32..64 bytes of plaintext
	if verifrt.Tier() == 1 {
		blocks = 2 + verifrt.Fork("blocks2", 4) + 64*verifrt.Fork("huge", 2) // also > 1024 padding
	}
	total := 16 * blocks
	plain := verifrt.NondetBytes("plain", total)
	side := Server // message from server, client decrypts
	msgKey := MessageKey(k.Value, plain, side)
	key, iv := Keys(k.Value, msgKey, side)
	em := &EncryptedMessage{AuthKeyID: k.ID, MsgKey: msgKey, EncryptedData: make([]byte, total)}
	blk, _ := newAES(key[:])
	ige.EncryptBlocks(blk, iv[:], em.EncryptedData, plain)
	c := NewClientCipher(vrand{})
	got, err := c.Decrypt(k, em)
	if err != nil {
		verifrt.Reach("C07.padding.rejected")
		verifrt.Assert(got == nil, "C07.padding.nilonerr")
		return
	}
	n := int(got.MessageDataLen)
	pad := total - 32 - n
	verifrt.Assert(n >= 0 && n%4 == 0, "C07.padding.len")
	verifrt.Class("C07-padding-no-lower-bound", pad >= 0 && pad < 12)
	verifrt.Assert(pad >= 12 && pad <= 1024, "C07.padding.range")
	verifrt.Reach("C07.padding.accepted")
}
