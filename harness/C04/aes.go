//go:build verif

package crypto

import (
	"crypto/aes"
	"crypto/cipher"
)

func newAES(key []byte) (cipher.Block, error) { return aes.NewCipher(key) }
