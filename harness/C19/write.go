//go:build verif

package faketls

import (
	"io"

	"github.com/gotd/td/internal/verifrt"
)

// c19conn records what FakeTLS writes: small writes (record headers) byte for byte, large ones
// by length.
type c19conn struct {
	small [][]byte
	lens  []int
}

func (c *c19conn) Write(p []byte) (int, error) {
	c.lens = append(c.lens, len(p))
	if len(p) <= 3 {
		c.small = append(c.small, append([]byte(nil), p...))
	} else {
		c.small = append(c.small, nil)
	}
	return len(p), nil
}

func (c *c19conn) Read(p []byte) (int, error) { return 0, io.EOF }

// VerifC19_write: two writes of arbitrary lengths L1, L2 in [0, 200000] through FakeTLS.Write.
// The output must parse as: one ChangeCipherSpec record with the 1-byte payload, then application
// records (3-byte header, 2-byte big-endian length, payload) whose length field equals the payload
// length that follows; the payload lengths of each Write sum to its L; Write returns L.
// Bound: at most 5 records per write (200000 < 5*65535).
func VerifC19_write() {
	verifrt.OpaqueAlloc(true)
	conn := &c19conn{}
	ft := NewFakeTLS(nil, conn)
	pos := 0
	for w := 0; w < 2; w++ {
		l := verifrt.NondetInt("L")
		verifrt.Assume(l >= 0 && l <= 200000)
		data := make([]byte, l)
		n, err := ft.Write(data)
		verifrt.Assert(err == nil, "C19.write.noerr")
		verifrt.Assert(n == l, "C19.write.n")
		if w == 0 {
			// ChangeCipherSpec: hdr(3) len(2) data(1)
			verifrt.Assert(len(conn.lens) >= 3 && conn.lens[0] == 3 && conn.lens[1] == 2 && conn.lens[2] == 1, "C19.write.ccs")
			if len(conn.lens) < 3 {
				return
			}
			verifrt.Assert(conn.small[0][0] == byte(RecordTypeChangeCipherSpec) && conn.small[1][0] == 0 && conn.small[1][1] == 1 && conn.small[2][0] == 1, "C19.write.ccsbytes")
			pos = 3
		}
		sum := 0
		recs := 0
		for pos < len(conn.lens) {
			verifrt.Assert(pos+3 <= len(conn.lens), "C19.write.recordshape")
			if pos+3 > len(conn.lens) {
				return
			}
			hdr, ln := conn.small[pos], conn.small[pos+1]
			verifrt.Assert(conn.lens[pos] == 3 && conn.lens[pos+1] == 2 && hdr != nil && ln != nil, "C19.write.recordshape")
			if hdr == nil || ln == nil || len(hdr) != 3 || len(ln) != 2 {
				return
			}
			verifrt.Assert(hdr[0] == byte(RecordTypeApplication), "C19.write.apptype")
			field := int(ln[0])<<8 | int(ln[1])
			payload := conn.lens[pos+2]
			verifrt.Assert(field == payload, "C19.write.lenfield")
			sum += payload
			recs++
			pos += 3
		}
		verifrt.Assert(sum == l, "C19.write.total")
		verifrt.Assert(recs <= 5, "C19.write.records")
		if recs > 1 {
			verifrt.Reach("C19.write.split")
		}
	}
	verifrt.Reach("C19.write.end")
}
