//go:build verif

package faketls

import (
	"bytes"
	"crypto/hmac"
	"crypto/sha256"
	"io"

	"github.com/gotd/td/internal/verifrt"
)

type c19stream struct {
	data   []byte
	pos    int
	budget int
}

func (r *c19stream) Read(p []byte) (int, error) {
	if len(p) == 0 {
		return 0, nil
	}
	if r.pos >= len(r.data) {
		return 0, io.EOF
	}
	n := copy(p, r.data[r.pos:])
	if r.budget > 0 && n > 1 {
		r.budget--
		switch verifrt.Fork("chunk", 3) {
		case 0:
			n = 1
		case 1:
			n = (n + 1) / 2
		}
	}
	r.pos += n
	return n, nil
}

func (r *c19stream) Write(p []byte) (int, error) { return len(p), nil }

func c19record(typ RecordType, body []byte) []byte {
	out := []byte{byte(typ), 3, 3, byte(len(body) >> 8), byte(len(body))}
	return append(out, body...)
}

// VerifC19_hello: a structurally valid server hello (handshake record, ChangeCipherSpec,
// application record) is accepted exactly when bytes 11..43 hold
// HMAC-SHA256(secret, clientRandom ‖ hello with those bytes zeroed).
// The "server" computes the digest with (secret xor smask, random xor rmask) and then xors dmask
// into it; acceptance must imply all three masks are zero (HMAC idealised collision-free).
func VerifC19_hello() {
	verifrt.CollisionFree()
	secret := verifrt.NondetBytes("secret", 16)
	var clientRandom [32]byte
	copy(clientRandom[:], verifrt.NondetBytes("random", 32))
	hs := verifrt.NondetBytes("handshake", 40)
	app := verifrt.NondetBytes("app", 4)
	// server side values
	ssecret := append([]byte(nil), secret...)
	srandom := clientRandom
	dmask := make([]byte, 32)
	honest := true
	switch verifrt.Fork("adversary", 4) {
	case 1:
		m := verifrt.NondetBytes("smask", 16)
		for i := range m {
			ssecret[i] ^= m[i]
		}
		verifrt.Assume(!bytes.Equal(m, make([]byte, 16)))
		honest = false
	case 2:
		m := verifrt.NondetBytes("rmask", 32)
		for i := range m {
			srandom[i] ^= m[i]
		}
		verifrt.Assume(!bytes.Equal(m, make([]byte, 32)))
		honest = false
	case 3:
		dmask = verifrt.NondetBytes("dmask", 32)
		verifrt.Assume(!bytes.Equal(dmask, make([]byte, 32)))
		honest = false
	}
	rec1 := c19record(RecordTypeHandshake, hs)
	for i := 11; i < 43; i++ {
		rec1[i] = 0
	}
	stream := append([]byte(nil), rec1...)
	stream = append(stream, c19record(RecordTypeChangeCipherSpec, []byte{1})...)
	stream = append(stream, c19record(RecordTypeApplication, app)...)
	mac := hmac.New(sha256.New, ssecret)
	mac.Write(srandom[:])
	mac.Write(stream)
	digest := mac.Sum(nil)
	for i := range digest {
		stream[11+i] = digest[i] ^ dmask[i]
	}
	err := readServerHello(&c19stream{data: stream, budget: 2}, clientRandom, secret)
	if honest {
		verifrt.Assert(err == nil, "C19.hello.accepthonest")
		verifrt.Reach("C19.hello.honest")
	} else {
		verifrt.Assert(err != nil, "C19.hello.rejectforged")
		verifrt.Reach("C19.hello.forged")
	}
	verifrt.Reach("C19.hello.end")
}

// VerifC19_stream: bytes written through FakeTLS.Write (two writes of 0..6 arbitrary bytes) are
// read back unchanged by a FakeTLS peer under chunked reads of the record stream.
func VerifC19_stream() {
	sink := &bytes.Buffer{}
	wr := NewFakeTLS(nil, struct {
		io.Reader
		io.Writer
	}{nil, sink})
	var want []byte
	for w := 0; w < 2; w++ {
		l := verifrt.Fork("len", 7)
		data := verifrt.NondetBytes("data", l)
		n, err := wr.Write(data)
		verifrt.Assert(err == nil && n == l, "C19.stream.write")
		want = append(want, data...)
	}
	rd := NewFakeTLS(nil, &c19stream{data: sink.Bytes(), budget: 2})
	got := make([]byte, 0, len(want))
	buf := make([]byte, 4)
	for len(got) < len(want) {
		n, err := rd.Read(buf)
		verifrt.Assert(err == nil, "C19.stream.read")
		if err != nil {
			return
		}
		got = append(got, buf[:n]...)
	}
	verifrt.Assert(string(got) == string(want), "C19.stream.equal")
	verifrt.Reach("C19.stream.end")
}
